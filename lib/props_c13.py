"""C13: routing (rendezvous hashing) is a deterministic, order-independent, minimally disruptive function.

Design: spec/Routing.tla (all strict score orders over <= 5 server names x all arrangements of all subsets,
laws as invariants, three negative configurations).  Conformance: `vh routing` logs what the real
cluster.RendezvousHash returned plus the rank order of the scores taken straight from the xxhash library;
spec/RoutingTrace.tla (TLC) judges every line."""
import glob
import json
import os
import re
import zlib

import props
import vlib
from props import (prop, design_check, expect_design_violation, drive_and_validate, binding_selftest,
                   Inconclusive, summarize_event)

props.META["C13"] = dict(
    technique=("TLA+ design spec of highest-random-weight routing (Routing.tla) model-checked over every strict score order; "
               "TLC trace validation (RoutingTrace.tla) of the real cluster.RendezvousHash against score ranks taken from the hash library"),
    design_ref="DESIGN.md 5 C13",
    text=("TLC proves on all strict score orders of up to 5 servers and all arrangements of all subsets that choosing by ascending "
          "per-server score is order independent, that adding a server moves keys only to it, that removing one moves only its keys, "
          "and that top-k is a prefix of the full ranking (mod-N placement, position-dependent and colliding scores are refuted as "
          "negative configurations). On the real function 10^4 (quick) to 10^6 (thorough) user-id / uuid keys are routed over server "
          "sets of size 1..16 in five arrangements, with every single addition and removal; TLC checks each answer to be the "
          "ascending-score prefix under the library's own score order, equality across arrangements and with the answer of a "
          "second process, both disruption laws and that every server owns keys. Model checking of the design plus conformance of sampled keys and lists; not a proof for all strings."),
    note=("trusted: the xxhash library (scores are computed by a direct library call and abstracted to ranks by the harness; the raw "
          "64-bit scores of the first keys of each scenario are cross-checked by TLC as 22/21/21-bit limbs), TLC, the harness' "
          "name<->index mapping; server lists without duplicates; topK >= 0; that all nodes are configured with the same server set "
          "is an operational assumption outside the function"))

LAWS = ("Shape", "Arrangement", "AddLaw", "RemoveLaw", "Peer", "Share", "ScoreOrder", "RankAbstraction", "Malformed")
REFUSED_RE = re.compile(r'<<\s*"REFUSED",\s*(\d+),\s*\{([^}]*)\}', re.S)
COVER_RE = re.compile(r'<<\s*"COVER",\s*"shared",\s*\{([^}]*)\},\s*"sizes",\s*\{([^}]*)\},\s*"keys",\s*(\d+),\s*"peers",\s*(\d+),'
                      r'\s*"drift",\s*(\d+)\s*>>', re.S)
DRIFT_RE = re.compile(r'<<\s*"DRIFT",\s*(\d+)\s*>>')


def refused_laws(raw):
    out = set()
    for m in REFUSED_RE.finditer(raw or ""):
        out |= set(re.findall(r'"([A-Za-z]+)"', m.group(2)))
    return out


def cover(raw):
    m = COVER_RE.search(raw or "")
    if not m:
        return None
    ints = lambda s: {int(x) for x in re.findall(r"\d+", s)}
    return {"shared": ints(m.group(1)), "sizes": ints(m.group(2)), "keys": int(m.group(3)), "peers": int(m.group(4)),
            "drift": int(m.group(5))}


def law_selftest(res, results, rewrite, what, expect):
    """Corrupt an accepted trace with rewrite(lines) -> lines or None; TLC must refuse it and name the law `expect`."""
    for r in results:
        if not (r.get("tv") and r["tv"]["accepted"]):
            continue
        with open(r["trace"]) as f:
            events = [json.loads(x) for x in f]
        new = rewrite(events)
        if new is None:
            continue
        tag = re.sub(r"[^a-z]", "", expect.lower()) + "-" + format(zlib.crc32(what.encode()) % 100000, "05d")
        dst = os.path.join(vlib.subdir("traces"), f"selftest-{tag}-{r['run']['name']}.ndjson")
        with open(dst, "w") as g:
            for e in new:
                g.write(json.dumps(e) + "\n")
        tv = vlib.tlc_trace("RoutingTrace", dst, name="selftest-" + tag)
        laws = refused_laws(tv["raw"])
        if tv["accepted"] or expect not in laws:
            raise Inconclusive(f"binding self-test failed: corrupted trace ({what}) accepted={tv['accepted']} laws named={sorted(laws)}, "
                               f"expected {expect}")
        res.coverage.setdefault("binding_selftests", []).append(
            f"{what}: corrupted copy of {r['run']['name']} refused at line {tv['matched'] + 1}, laws named {sorted(laws)}")
        return
    if res.violations:
        return
    raise Inconclusive(f"binding self-test could not run ({what}): no accepted trace with an applicable line")


def drift_selftest(res, results, rewrite, what):
    """Corrupt the REFERENCE ranks of an accepted trace: TLC must still accept (the property laws hold on the answers)
    but must count the line as departing from the reference score order."""
    for r in results:
        if not (r.get("tv") and r["tv"]["accepted"]):
            continue
        with open(r["trace"]) as f:
            events = [json.loads(x) for x in f]
        new = rewrite(events)
        if new is None:
            continue
        dst = os.path.join(vlib.subdir("traces"), f"selftest-drift-{r['run']['name']}.ndjson")
        with open(dst, "w") as g:
            for e in new:
                g.write(json.dumps(e) + "\n")
        tv = vlib.tlc_trace("RoutingTrace", dst, name="selftest-drift")
        c = cover(tv["raw"]) or {"drift": -1}
        m = DRIFT_RE.search(tv["raw"])
        if not tv["accepted"] or c["drift"] != 1 or not m:
            raise Inconclusive(f"binding self-test failed: {what}: accepted={tv['accepted']} drift={c['drift']} "
                               f"laws named={sorted(refused_laws(tv['raw']))}")
        res.coverage.setdefault("binding_selftests", []).append(
            f"{what}: corrupted copy of {r['run']['name']} accepted with the line counted as score-order drift (line {m.group(1)})")
        return
    if res.violations:
        return
    raise Inconclusive(f"binding self-test could not run ({what})")


def first_key(events, pred):
    for i, e in enumerate(events):
        if e["ev"] == "Key" and pred(e):
            return i
    return None


def rw_key(pred, change):
    def rewrite(events):
        i = first_key(events, pred)
        if i is None:
            return None
        change(events[i])
        return events
    return rewrite


def full(e):
    return e["b"][1]    # the answer for topK = n


def rw_share(events):
    """In the first scenario that is large enough for the share law, give every key owned by one server a copy of the
    answers of a key owned by another one: that server then owns nothing."""
    i = 0
    while i < len(events):
        e = events[i]
        if e["ev"] == "Scenario" and e["n"] >= 2 and e["nkeys"] >= 40 * e["n"]:
            j = i + 1
            keys = []
            while events[j]["ev"] == "Key":
                keys.append(j)
                j += 1
            victim = events[keys[0]]["b"][0][0]
            donor = next((events[k] for k in keys if events[k]["b"][0][0] != victim), None)
            if donor is None:
                return None
            for k in keys:
                if events[k]["b"][0][0] == victim:
                    seq = events[k]["seq"]
                    events[k] = dict(donor, seq=seq)
            return events
        i += 1
    return None


def callsite_scan():
    """Every routing decision in package cluster must go through RendezvousHash(<key>, c.Servers, 1)[0]."""
    pat_any = re.compile(r"RendezvousHash\(")
    pat_std = re.compile(r"RendezvousHash\(\s*[\w.]+\s*,\s*c\.Servers\s*,\s*1\s*\)\[0\]")
    tot = std = 0
    odd = []
    for f in sorted(glob.glob(os.path.join(vlib.REPO, "cluster", "*.go"))):
        if f.endswith("_test.go"):
            continue
        for n, line in enumerate(open(f, errors="replace"), 1):
            if "func RendezvousHash" in line or line.strip().startswith("//"):
                continue
            k = len(pat_any.findall(line))
            if k:
                tot += k
                s = len(pat_std.findall(line))
                std += s
                if s != k:
                    odd.append(f"{os.path.basename(f)}:{n}")
    return tot, std, odd


@prop("C13", "model_checking")
def c13(res, tier, seed, replay):
    if replay:
        props.replay_run(res, replay, default_module="RoutingTrace")
        return
    # ---- design level
    design_check(res, "Routing", "Routing.cfg")
    expect_design_violation(res, "Routing", "Routing.positional.cfg", "OrderIndependent",
                            "score into which the list position leaks")
    expect_design_violation(res, "Routing", "Routing.ties.cfg", "OrderIndependent",
                            "colliding scores with ties kept in list order")
    expect_design_violation(res, "Routing", "Routing.modulo.cfg", "MinimalDisruption",
                            "hash modulo number of servers (order independent, but one more / one less server reshuffles keys)")
    # ---- conformance of the real function
    if tier == "quick":
        nruns, keys, spread, extra = 4, 3500, 4, []
    else:
        nruns, keys, spread, extra = 40, 25000, 8, []
    runs = []
    for i in range(nruns):
        args = ["-seed", seed * 1000 + i, "-keys", keys, "-run", i, "-runs", spread]
        if tier == "thorough" and i % 4 == 3:
            args += ["-universe", 24, "-narrow", 4]       # more additions per set, more sets
        if tier == "thorough" and i % 4 == 2:
            args += ["-universe", 17, "-narrow", 16]
        runs.append({"name": f"routing-{i}", "args": args, "timeout": 900, "tlc_timeout": 1500})
    nviol = len(res.violations)
    results = drive_and_validate(res, runs, module="RoutingTrace", cmd="routing")
    # name the violated laws / the key / the panic in the violation records
    failing = [r for r in results if r["rc"] != 0 or (r.get("tv") and not r["tv"]["accepted"])]
    for r, idx in zip(failing, range(nviol, len(res.violations))):
        d, desc = res.violations[idx]
        extra = {}
        if r["rc"] != 0:
            pl = [x for x in r["stderr"].splitlines() if x.startswith("panic:") or x.startswith("fatal error:")]
            extra["panic"] = pl[0][:300] if pl else ""
            desc += f" [{extra['panic']}]"
        else:
            laws = sorted(refused_laws(r["tv"]["raw"]))
            extra["laws"] = laws
            desc += f" [laws violated: {', '.join(laws) or 'input guard'}]"
            try:
                e = json.loads(vlib.read_line(r["trace"], r["tv"]["matched"] + 1) or "{}")
            except ValueError:
                e = {}
            if e.get("ev") == "Key":
                extra["key"], extra["key_kind"] = e["k"], e["kind"]
                desc += f" [key {e['k']!r} ({e['kind']}); the server lists are in the preceding Scenario line of the trace]"
        res.violations[idx] = (d, desc)
        try:
            vj = os.path.join(d, "violation.json")
            v = json.load(open(vj))
            v["what"] = desc
            v.update(extra)
            json.dump(v, open(vj, "w"), indent=1)
        except OSError:
            pass
    # coverage facts printed by TLC (COVER) and by the driver
    shared, sizes, nkeys, calls, ties, scen, peers, drift, drift_at = set(), set(), 0, 0, 0, 0, 0, 0, None
    for r in results:
        if r["rc"] != 0:
            continue
        try:
            st = json.loads(r["stdout"].strip().splitlines()[-1])
            calls += st["calls"]
            ties += st["tie_keys"]
            scen += st["scenarios"]
        except (ValueError, KeyError, IndexError):
            raise Inconclusive("routing driver printed no statistics: " + r["stdout"][-300:])
        if r.get("tv") and r["tv"]["accepted"]:
            c = cover(r["tv"]["raw"])
            if c is None:
                raise Inconclusive("RoutingTrace accepted a trace without reporting coverage (no Done line?)")
            if 16 not in c["shared"]:
                raise Inconclusive(f"run {r['run']['name']}: the share law was not evaluated on a 16-server set")
            if c["peers"] == 0:
                raise Inconclusive(f"run {r['run']['name']}: no key was routed by the second process")
            shared |= c["shared"]
            sizes |= c["sizes"]
            nkeys += c["keys"]
            peers += c["peers"]
            drift += c["drift"]
            m = DRIFT_RE.search(r["tv"]["raw"])
            if m and drift_at is None:
                drift_at = (r["run"]["name"], int(m.group(1)), vlib.read_line(r["trace"], int(m.group(1))) or "")
    res.coverage["keys_routed"] = nkeys
    res.coverage["scenarios"] = scen
    res.coverage["real_function_calls_judged"] = calls
    res.coverage["keys_with_equal_scores"] = ties
    res.coverage["keys_also_routed_by_a_second_process"] = peers
    res.coverage["keys_departing_from_reference_score_order"] = drift
    if drift:
        msg = (f"{drift} of {nkeys} keys are routed consistently with every law of the property (same answer for every arrangement "
               f"and in a second process, both disruption laws, share) but NOT by ascending xxhash(key ++ server): the scoring rule of "
               f"cluster.RendezvousHash differs from spec/RoutingTrace.tla's reference; first: run {drift_at[0]} line {drift_at[1]}: "
               f"{summarize_event(drift_at[2], 300)}")
        print(f"SPEC-DRIFT property=C13 {msg}")
        res.notes.append("SPEC-DRIFT: " + msg)
    res.coverage["set_sizes_seen"] = sorted(sizes)
    res.coverage["set_sizes_with_share_law"] = sorted(shared)
    if not res.violations:
        if sizes != set(range(1, 17)) or shared != set(range(1, 17)):
            raise Inconclusive(f"coverage hole: set sizes seen {sorted(sizes)}, share law evaluated for {sorted(shared)}")
    tot, std, odd = callsite_scan()
    res.coverage["call_sites"] = {"total": tot, "of_the_form_RendezvousHash(key, c.Servers, 1)[0]": std, "other": odd}
    if odd:
        res.notes.append("call sites that do not take element 0 of the top-1 list over c.Servers: " + ", ".join(odd))
    for r in results[:1]:
        props.sample_from_trace(res, r["trace"], ("Scenario",), cap=1)
        props.sample_from_trace(res, r["trace"], ("Key",), cap=2)

    # ---- binding self-tests: a corrupted log must be refused, and for the stated reason
    def mut_arr(e):
        if e["ev"] == "Key" and len(full(e)) >= 2 and len(e["p"]) >= 2 and e["p"][1]:
            e["p"][1][0] = full(e)[1]
            return True
        return False

    def chg_rem(e):
        i = next(i for i, o in enumerate(e["r"]) if o == e["b"][0][0])
        e["r"][i] = full(e)[2]

    def chg_rk(e):
        a, b = full(e)[0], full(e)[1]
        e["rk"][a - 1], e["rk"][b - 1] = e["rk"][b - 1], e["rk"][a - 1]

    def chg_h(e):
        e["h"][0], e["h"][1] = e["h"][1], e["h"][0]

    def chg_q(e):
        e["q"][0], e["q"][1] = e["q"][1], e["q"][0]

    tests = [
        lambda: binding_selftest(res, results, mut_arr, module="RoutingTrace",
                                 what="owner reported for the reversed list replaced by the second-ranked server"),
        lambda: law_selftest(res, results, rw_key(lambda e: len(full(e)) >= 2 and len(e["p"]) >= 2,
                                                  lambda e: e["p"][2].__setitem__(0, full(e)[1])),
                             "owner reported for the rotated list replaced by the second-ranked server", "Arrangement"),
        lambda: law_selftest(res, results, rw_key(lambda e: len(full(e)) >= 3 and e["a"] and e["a"][0] == e["b"][0][0],
                                                  lambda e: e["a"].__setitem__(0, full(e)[2])),
                             "after adding a server a key moves to a third (old) server", "AddLaw"),
        lambda: law_selftest(res, results, rw_key(lambda e: len(full(e)) >= 4 and e["b"][0][0] in e["r"], chg_rem),
                             "after removing a server that did not own the key, the key moves", "RemoveLaw"),
        lambda: law_selftest(res, results, rw_key(lambda e: len(e["b"][2]) >= 1, lambda e: e["b"][2].pop()),
                             "answer for topK beyond the list one element short", "Shape"),
        lambda: law_selftest(res, results, rw_key(lambda e: len(e.get("q", [])) >= 2, chg_q),
                             "the second process ranks two servers the other way round", "Peer"),
        lambda: law_selftest(res, results, rw_key(lambda e: "h" in e, chg_h),
                             "raw scores of two servers exchanged against the logged ranks", "RankAbstraction"),
        lambda: law_selftest(res, results, rw_share, "one server of a large scenario owns no key", "Share"),
    ]
    if drift == 0:
        tests.append(lambda: drift_selftest(res, results, rw_key(lambda e: len(full(e)) >= 2 and "h" not in e, chg_rk),
                                            "reference ranks of the two best servers exchanged (answers untouched)"))
    vlib.pmap(lambda t: t(), tests, workers=4)

    res.coverage["rule"] = ("keys (uuid strings; sequential, 28-character, e-mail, numeric, one-character, very long, '/'-carrying user ids; "
                            "keys equal to / ending in server names) x server lists of 1..16 names drawn from four name universes "
                            "(localhost:port, stateful-set host names, names that are prefixes of one another, random) x "
                            "{topK 1, n, beyond n, in between, 0} x {same list again, reversed, rotated, two shuffles} x every single "
                            "addition (front / end / random position) x every single removal; one trace line per key; per size one "
                            "scenario of 40 n keys for the share law")
    res.assumptions += ["server lists hold distinct names (a set); the empty list and negative topK are outside the property",
                        "a key with two equal 64-bit scores (none observed, see keys_with_equal_scores) is only required to "
                        "return a valid ascending prefix",
                        "share law: 40 n keys per set of n servers (probability of a false alarm with a uniform hash < 1e-16)"]
