"""C11: shared-cache transactions (CacheMgr.tla design + forced schedules + CacheMonitor.tla)."""
import glob
import json
import os
import random

import props
import vlib
from props import prop, design_check, expect_design_violation, binding_selftest, known_names, summarize_event, CRASH_RE
from vlib import Inconclusive

props.META["C11"] = dict(
    technique="TLA+ protocol spec (CacheMgr.tla) model-checked exhaustively; TLC-generated behaviours forced on the real cache manager through yield points; events validated by a TLA+ monitor (CacheMonitor.tla)",
    design_ref="DESIGN.md 5 C11",
    text=("Exhaustive TLC check of Transaction.With / Commit / Release / prune for program families of three transactions under size "
          "limits unlimited / 0 / small (writer isolation, no concurrent reader+writer on one object, readers never block, locks free at "
          "the end, deadlock freedom), bound to the code by replaying TLC simulation behaviours of randomly drawn programs on the real "
          "manager (hook H2) and validating the recorded callback / commit events with TLC."),
    note="trusted: goroutine-dump based stuck confirmation; one goroutine per transaction; single-writer environment assumption (bbolt)")

KINDS = {"R": (True, False, False), "W": (False, False, False), "RF": (True, True, False), "WF": (False, True, False),
         "RC": (True, False, True), "WC": (False, False, True)}


def acc(kind, name):
    return f'{kind}("{name}")'


def random_family(rng, n):
    """n random program triples: t1 is the writer-ish tx, t2 a reader, t3 either."""
    fam = []
    for _ in range(n):
        progs = {}
        for t, kinds, maxlen in (("t1", ["W", "W", "W", "R", "WF", "WC", "RF"], 3), ("t2", ["R", "R", "R", "RF", "RC"], 2),
                                 ("t3", ["R", "R", "W", "WF", "RF", "RC", "W"], 3)):
            k = rng.randint(1, maxlen)
            progs[t] = [acc(rng.choice(kinds), rng.choice(["A", "B"])) for _ in range(k)]
        if rng.random() < 0.2:
            # the writer writes the same name twice with something in between
            n = rng.choice(["A", "B"])
            progs["t1"] = [acc("W", n), acc(rng.choice(["R", "W"]), "B" if n == "A" else "A"), acc("W", n)]
        if rng.random() < 0.25:
            # hand-over after a failure: t1 fails while t3 queues for the same cache as a writer and t2 reads it
            n = rng.choice(["A", "B"])
            progs["t1"] = [acc(rng.choice(["WF", "W"]), n)] + ([acc("RF", n)] if rng.random() < 0.5 else [acc("WF", n)])
            progs["t3"] = [acc("W", n)] + ([acc(rng.choice(["R", "W"]), n)] if rng.random() < 0.5 else [])
            progs["t2"] = [acc("R", n)] + ([acc("R", n)] if rng.random() < 0.5 else [])
        fam.append(progs)
    return fam


def write_gen_module(wd, fam):
    lines = ["---- MODULE CacheMgrGen ----", "EXTENDS CacheMgrMC", "GenFamily == {"]
    recs = []
    for progs in fam:
        recs.append("  [" + ", ".join(f"{t} |-> <<{', '.join(p)}>>" for t, p in sorted(progs.items())) + "]")
    lines.append(",\n".join(recs))
    lines += ["}", "===="]
    with open(os.path.join(wd, "CacheMgrGen.tla"), "w") as f:
        f.write("\n".join(lines) + "\n")


WIT_FAMILY = """
WitFamily == {
  [t1 |-> <<W("A")>>,          t2 |-> <<R("A")>>,          t3 |-> <<W("A")>>],
  [t1 |-> <<WF("A")>>,         t2 |-> <<R("A")>>,          t3 |-> <<W("A")>>],
  [t1 |-> <<W("A"), RF("A")>>, t2 |-> <<R("A"), R("A")>>,  t3 |-> <<W("A")>>],
  [t1 |-> <<W("B"), WF("A")>>, t2 |-> <<R("A")>>,          t3 |-> <<W("A"), R("A")>>],
  [t1 |-> <<W("A")>>,          t2 |-> <<R("A"), R("B")>>,  t3 |-> <<R("A"), W("A")>>]
}
\\* schedules worth forcing on the real manager: (1) a writer and somebody else inside callbacks of the same name at
\\* the same time (on different objects, in a correct manager); (2) a reader about to try the lock of an object that
\\* has been discarded since it looked it up; (3) a writer that obtained the lock of a discarded object
WitCond == \\/ \\E t, u \\in Tx : t # u /\\ inCb[t] # NoObj /\\ inCb[u] # NoObj /\\ Acc(t).name = Acc(u).name /\\ ~Acc(t).ro
           \\/ \\E t \\in Tx : pc[t] = "tryR" /\\ exist[t] # NoObj /\\ scrapped[exist[t]]
           \\/ \\E t \\in Tx : pc[t] = "chk" /\\ ~Acc(t).ro /\\ exist[t] # NoObj /\\ scrapped[exist[t]]
Witness == WitCond => PrintT("BEHAVIOUR " \\o ToJson([progs |-> Progs, cfail |-> cfail, hist |-> hist]))
"""


def witnesses(seed, maxsize, name, cap):
    """Exhaustive TLC search (breadth first) over a few small program triples; every reachable state that satisfies
    one of the scenario predicates prints the shortest behaviour that reaches it (a prefix: the replay lets the
    transactions finish freely afterwards)."""
    import subprocess
    wd = vlib.subdir("wit-" + name)
    vlib._stage_spec(wd)
    with open(os.path.join(wd, "CacheMgrWit.tla"), "w") as f:
        f.write("---- MODULE CacheMgrWit ----\nEXTENDS CacheMgrMC\n" + WIT_FAMILY.replace("\\\\", "\\") + "====\n")
    cfg = open(os.path.join(wd, "CacheMgr.sim.cfg")).read()
    cfg = (cfg.replace("ProgFamily <- SimFamily", "ProgFamily <- WitFamily").replace("MaxSize = 3", f"MaxSize = {maxsize}")
           .replace("SPECIFICATION SimSpec", "SPECIFICATION Spec").replace("INVARIANTS PrintBehaviour", "INVARIANTS Witness\nVIEW view"))
    open(os.path.join(wd, "Wit.cfg"), "w").write(cfg)
    cmd = vlib._tlc_cmd(heap="6g") + ["-workers", "4", "-metadir", os.path.join(wd, "md"), "-config", "Wit.cfg", "CacheMgrWit.tla"]
    try:
        p = subprocess.run(cmd, cwd=wd, capture_output=True, text=True, timeout=1500)
    except subprocess.TimeoutExpired:
        raise Inconclusive("TLC witness search timeout (CacheMgr)")
    out = p.stdout + p.stderr
    if "Model checking completed" not in out:
        raise Inconclusive("CacheMgr witness search failed:\n" + out[-1500:])
    res, seen = [], set()
    for line in out.splitlines():
        if line.startswith('"BEHAVIOUR '):
            js = line[len('"BEHAVIOUR '):].rstrip()
            if js.endswith('"'):
                js = js[:-1]
            js = js.replace('\\"', '"')
            if js not in seen:
                seen.add(js)
                res.append(js)
    if not res:
        raise Inconclusive("CacheMgr witness search produced nothing")
    rng = random.Random(seed)
    rng.shuffle(res)
    return res[:cap], len(res)


def simulate(seed, maxsize, fam, num, name):
    """TLC simulation of CacheMgr.tla over a generated program family."""
    import re
    import shutil
    import subprocess
    wd = vlib.subdir("sim-" + name)
    vlib._stage_spec(wd)
    write_gen_module(wd, fam)
    cfg = open(os.path.join(wd, "CacheMgr.sim.cfg")).read()
    cfg = cfg.replace("ProgFamily <- SimFamily", "ProgFamily <- GenFamily").replace("MaxSize = 3", f"MaxSize = {maxsize}")
    open(os.path.join(wd, "Gen.cfg"), "w").write(cfg)
    cmd = vlib._tlc_cmd(heap="4g") + ["-workers", "1", "-simulate", f"num={num}", "-depth", "300", "-seed", str(seed),
                                      "-metadir", os.path.join(wd, "md"), "-config", "Gen.cfg", "CacheMgrGen.tla"]
    try:
        p = subprocess.run(cmd, cwd=wd, capture_output=True, text=True, timeout=900)
    except subprocess.TimeoutExpired:
        raise Inconclusive("TLC simulation timeout (CacheMgr)")
    out = p.stdout + p.stderr
    res, seen = [], set()
    for line in out.splitlines():
        if line.startswith('"BEHAVIOUR '):
            js = line[len('"BEHAVIOUR '):].rstrip()
            if js.endswith('"'):
                js = js[:-1]
            js = js.replace('\\"', '"')
            if js not in seen:
                seen.add(js)
                res.append(js)
    if not res:
        raise Inconclusive("CacheMgr simulation produced no behaviour:\n" + out[-1500:])
    shutil.rmtree(os.path.join(wd, "md"), ignore_errors=True)
    return res


@prop("C11", "model_checking")
def c11(res, tier, seed, replay):
    vlib.build_harness()
    kn = known_names(res.pid)
    stage_sizes = (-1, 3, 0)
    if replay:
        meta = json.load(open(os.path.join(replay, "violation.json")))["meta"]
        if meta.get("stages"):
            jobs, stage_sizes = [], (meta["maxsize"],)
        else:
            stage_sizes = ()
            jobs = [("replay", meta["maxsize"], [l.strip() for l in open(os.path.join(replay, meta["behaviours"])) if l.strip()])]
    else:
        design_check(res, "CacheMgrMC", "CacheMgr.s0.cfg")
        if tier == "thorough":
            design_check(res, "CacheMgrMC", "CacheMgr.s99.cfg", timeout=2400)
            design_check(res, "CacheMgrMC", "CacheMgr.s3.cfg", timeout=2400)
            design_check(res, "CacheMgrMC", "CacheMgr.twicefix.cfg", timeout=2400)
        expect_design_violation(res, "CacheMgrMC", "CacheMgr.twice.cfg", "NoConcurrentRW",
                                "pinned protocol: a transaction writing the same name twice under a small size limit skips locking by NAME on the second access")
        # one transaction on several goroutines (CacheMgr.tla has one goroutine per transaction): the lock order
        design_check(res, "CacheLocks", "CacheLocks.fixed-reader.cfg")
        design_check(res, "CacheLocks", "CacheLocks.fixed-writer.cfg")
        expect_design_violation(res, "CacheLocks", "CacheLocks.pinned-reader.cfg", "NoDeadlock",
                                "pinned lock order (manager, then transaction): stage / stage / reader-with-deferred-prune deadlock")
        expect_design_violation(res, "CacheLocks", "CacheLocks.pinned-writer.cfg", "NoDeadlock",
                                "pinned lock order (manager, then transaction): stage / stage / committing-previous-writer deadlock")
        rng = random.Random(seed)
        nfam, num = (60, 250) if tier == "quick" else (400, 3000)
        jobs = []
        for ms, spec_ms in ((-1, 99), (0, 0), (3, 3)):
            fam = random_family(rng, nfam)
            jobs.append((f"ms{spec_ms}", ms, simulate(seed, spec_ms, fam, num, f"ms{spec_ms}")))
        # scenario witnesses found by exhaustive search instead of by chance
        for ms, spec_ms in ((-1, 99), (3, 3)):
            wit, total = witnesses(seed, spec_ms, f"wit{spec_ms}", 300 if tier == "quick" else 3000)
            res.coverage.setdefault("scenario_witnesses", {})[f"maxsize {ms}"] = {"reachable": total, "replayed": len(wit)}
            jobs.append((f"wit{spec_ms}", ms, wit))
    # transactions whose accesses run on several goroutines (the write pipeline: one stage per index on one cache
    # transaction): the two schedules of CacheLocks.tla, under every size limit
    if stage_sizes:
        for ms in stage_sizes:
            out = os.path.join(vlib.subdir("traces"), f"cache-stages-ms{ms}.ndjson")
            rc, so, se = vlib.run_vh(["cachemgr", "-stages", 3 if tier == "quick" else 25, "-maxsize", ms, "-out", out,
                                      "-dir", vlib.subdir(f"cm-stages{ms}")], timeout=900)
            if rc != 0:
                raise Inconclusive(f"cachemgr stage scenarios failed rc={rc}: {se[-1500:]}")
            with open(out) as f:
                for line in f:
                    if '"ev":"Stuck"' in line and json.loads(line).get("confirmed") != 1:
                        raise Inconclusive("a stage scenario did not return but the goroutine dump does not show it parked on a lock: " + line[:300])
            tv = vlib.tlc_trace("CacheMonitor", out, known=kn.keys(), name=f"cache-stages-ms{ms}")
            res.add("traces_validated_against_impl", 1)
            res.add("stage_scenarios", json.loads(so.strip().splitlines()[-1])["behaviours"])
            if not tv["accepted"]:
                n = tv["matched"] + 1
                line = vlib.read_line(out, n) or ""
                dumps = sorted(glob.glob(os.path.join(vlib.subdir(f"cm-stages{ms}"), "stuck-stage-*.dump")))[:1]
                res.violation(f"cache manager, transaction on several goroutines (maxsize {ms}): no monitor action explains line {n}: {line.strip()[:300]}",
                              files=[out] + dumps, meta={"stages": True, "maxsize": ms, "line": n})
    # free-running rounds with every transaction on parallel goroutines (isolation by the monitor, everybody returns)
    if stage_sizes and not replay:
        for ms in stage_sizes:
            out = os.path.join(vlib.subdir("traces"), f"cache-stress-ms{ms}.ndjson")
            rc, so, se = vlib.run_vh(["cachemgr", "-stress", 300 if tier == "quick" else 6000, "-seed", seed, "-maxsize", ms, "-out", out,
                                      "-dir", vlib.subdir(f"cm-stress{ms}")], timeout=1800)
            if rc != 0:
                if CRASH_RE.search(se):
                    errf = out + ".stderr"
                    open(errf, "w").write(se)
                    res.violation("cache manager stress rounds crashed: " + next((ln for ln in se.splitlines() if CRASH_RE.search(ln)), "")[:200],
                                  files=[errf], meta={"stages": True, "maxsize": ms})
                    continue
                raise Inconclusive(f"cachemgr stress rounds failed rc={rc}: {se[-1500:]}")
            tv = vlib.tlc_trace("CacheMonitor", out, known=kn.keys(), name=f"cache-stress-ms{ms}", timeout=1800)
            res.add("traces_validated_against_impl", 1)
            res.add("stress_rounds", json.loads(so.strip().splitlines()[-1])["behaviours"])
            if not tv["accepted"]:
                n = tv["matched"] + 1
                line = vlib.read_line(out, n) or ""
                dumps = sorted(glob.glob(os.path.join(vlib.subdir(f"cm-stress{ms}"), "stuck-stress-*.dump")))[:1]
                res.violation(f"cache manager, stress rounds with transactions on several goroutines (maxsize {ms}): no monitor action explains line {n}: {line.strip()[:300]}",
                              files=[out] + dumps, meta={"stages": True, "maxsize": ms, "line": n})
    tot_drift = 0
    for name, ms, behs in jobs:
        bf = os.path.join(vlib.subdir("traces"), f"cache-{name}.behaviours")
        with open(bf, "w") as f:
            f.write("\n".join(behs) + "\n")
        out = os.path.join(vlib.subdir("traces"), f"cache-{name}.ndjson")
        rc, so, se = vlib.run_vh(["cachemgr", "-behaviours", bf, "-maxsize", ms, "-out", out, "-dir", vlib.subdir("cm-" + name)], timeout=3000)
        if rc != 0:
            if CRASH_RE.search(se):
                errf = out + ".stderr"
                open(errf, "w").write(se)
                first = next((ln for ln in se.splitlines() if CRASH_RE.search(ln)), "")
                res.violation(f"cache manager replay crashed: {first[:200]}", files=[bf, errf],
                              meta={"behaviours": os.path.basename(bf), "maxsize": ms})
                continue
            raise Inconclusive(f"cachemgr driver failed rc={rc}: {se[-1500:]}")
        stats = json.loads(so.strip().splitlines()[-1])
        tot_drift += stats["drifted"]
        res.add("behaviours_replayed", stats["behaviours"])
        res.coverage.setdefault("drift_samples", []).extend((stats.get("drift_samples") or [])[:1])
        with open(out) as f:
            for line in f:
                if '"ev":"Stuck"' in line and json.loads(line).get("confirmed") != 1:
                    raise Inconclusive("an access did not return but the goroutine dump does not show it parked on a lock: " + line[:300])
        tv = vlib.tlc_trace("CacheMonitor", out, known=kn.keys(), name="cache-" + name)
        res.add("traces_validated_against_impl", stats["behaviours"])
        res.add("trace_events", tv["lines"])
        for k in tv["kf"]:
            res.known[k] = kn[k]["what"]
        if not tv["accepted"]:
            n = tv["matched"] + 1
            line = vlib.read_line(out, n) or ""
            beh = None
            with open(out) as f:
                for i, ln in enumerate(f, 1):
                    if i > n:
                        break
                    if '"ev":"NewBehaviour"' in ln:
                        beh = json.loads(ln)
            one = os.path.join(vlib.subdir("traces"), f"cache-{name}-b{beh['b'] if beh else 0}.behaviours")
            if beh is not None:
                open(one, "w").write(behs[beh["b"]] + "\n")
            res.violation(f"cache manager (maxsize {ms}): no monitor action explains line {n}: {summarize_event(line)}; programs "
                          f"{json.dumps(beh['progs']) if beh else '?'}"[:1500], files=[one, out],
                          meta={"behaviours": os.path.basename(one), "maxsize": ms, "line": n})
        else:
            if len(res.coverage["samples"]) < 2:
                res.sample(json.loads(behs[0]), cap=2)
            if name in ("ms99", "replay"):
                results = [{"run": {"name": "cache-" + name}, "trace": out, "tv": tv}]

                def mut(e):
                    if e["ev"] == "CbEnter" and e["ro"] == 1 and mut.n >= 3:
                        e["ro"] = 0   # pretend a read callback was a write: a later reader on the object must be rejected
                        return True
                    if e["ev"] == "CbEnter":
                        mut.n += 1
                    return False
                mut.n = 0
                try:
                    binding_selftest(res, results, mut, module="CacheMonitor", what="a read access relabelled as write access", invariants=("WF",))
                except Inconclusive:
                    pass
    res.coverage["behaviours_with_protocol_drift"] = tot_drift
    res.coverage["rule"] = ("TLC checks CacheMgr.tla exhaustively for hand-picked program triples under size limits unlimited / 0 / small and "
                            "generates, in simulation mode, behaviours for randomly drawn program triples (read-only / writing accesses to "
                            "names A, B with failing callbacks / constructors, Commit(fail), Release at any time); each behaviour is forced "
                            "on a real cache.Manager through the H2 yield points and instrumented callbacks; TLC validates the callback / "
                            "commit events against CacheMonitor.tla (isolation, no hand-out after discard, progress, final probe)")
    res.assumptions += ["one goroutine per transaction", "single-writer environment assumption (bbolt): writing transactions do not overlap their accesses"]
