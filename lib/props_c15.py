"""C15: inserted points are partitioned over shards within limits; quotas are enforced.

Design level: spec/Placement.tla (step-by-step transcription of cluster/placement.go run by TLC on every
small input against the relation ValidAssignment of spec/PlacementRel.tla, negative configurations).
Conformance: `vh placement` feeds the same inputs plus seeded larger ones to the REAL distributePoints and
runs request sequences on an in-process cluster node; spec/PlacementTrace.tla (TLC) judges every line."""
import json
import os
import re

import props
import vlib
from props import (prop, design_check, expect_design_violation, drive_and_validate, binding_selftest,
                   replay_run, summarize_event, Inconclusive)

props.META["C15"] = dict(
    technique=("TLA+ transcription of distributePoints (Placement.tla) model-checked on every small input against the relation "
               "ValidAssignment; the real distributePoints (hook) on the same inputs plus random larger ones and request "
               "sequences on an in-process cluster node validated by TLC against PlacementTrace.tla"),
    design_ref="DESIGN.md 5 C15",
    text=("TLC runs the transcribed placement algorithm on every input of a small enumeration (<= 3 existing shards, <= 5 points, "
          "count limits 1..3, size limits 1..6, restricted to inputs where one point fits an empty shard) and checks that its output "
          "partitions the batch into per-shard ranges within the count and size maxima and opens shards only when needed; the REAL "
          "distributePoints is run on the same enumeration and on seeded larger inputs and TLC checks the same relation on every real "
          "output; sequences of collection creations / inserts / deletions around the quota boundaries on a real single-server "
          "cluster node are validated by TLC (no shard above its maximum, count identity with failed ranges, refusals beyond the "
          "quotas without effect). Model checking of the design plus conformance of enumerated and sampled executions; not a proof "
          "for all inputs."),
    note=("trusted: TLC and its Json module, the harness' abstraction of shard ids to list positions, GetShardsInfo / "
          "ListCollections / the shard-level _id search as observers; single server (no RPC routing), no concurrent requests on one collection, shard sizes "
          "(file sizes) are not judged end to end"))


COV_RE = re.compile(r'<<"COV", (\d+), (\d+), (\d+)>>')


def _mut_overlap(e):
    # one range grows by a point: it overlaps its neighbour or leaves the batch
    if e["ev"] == "Case" and e["asg"]:
        e["asg"][0]["hi"] += 1
        return True
    return False


def _mut_boundary(e):
    # the boundary between the first two ranges moves: still a partition, but the first shard is over a maximum
    # (or the second one, freshly created, receives nothing)
    if e["ev"] == "Case" and len(e["asg"]) >= 2 and e["asg"][0]["hi"] == e["asg"][1]["lo"]:
        e["asg"][0]["hi"] += 1
        e["asg"][1]["lo"] += 1
        return True
    return False


def _mut_created(e):
    # one more shard opened than needed
    if e["ev"] == "Case":
        e["created"] += 1
        return True
    return False


def _mut_total(e):
    if e["ev"] == "Insert" and e["res"] == "ok" and e["n"] > 0:
        for r in e["state"]:
            if r["u"] == e["u"] and r["c"] == e["c"] and r["k"]:
                r["k"][-1] -= 1     # one point lost
                return True
    return False


def _mut_quota_insert(e):
    # a refused insert that nevertheless left a point behind
    if e["ev"] == "Insert" and e["res"] == "quota":
        for r in e["state"]:
            if r["u"] == e["u"] and r["c"] == e["c"]:
                r["k"] = r["k"] + [1]
                return True
    return False


def _mut_quota_create(e):
    # a creation beyond the quota reported as accepted
    if e["ev"] == "Create" and e["res"] == "quota":
        e["res"] = "ok"
        e["state"] = sorted(e["state"] + [{"u": e["u"], "c": e["c"], "k": []}], key=lambda r: (r["u"], r["c"]))
        return True
    return False


def _mut_race_twice(e):
    # a name created by two requests of one race
    if e["ev"] == "CreateRace":
        for r in e["reqs"]:
            if r["res"] == "ok":
                e["reqs"].append(dict(r))
                return True
    return False


def _placed(e, p):
    return not e["pre"][p] and not e["dup"][p] and not any(f["lo"] <= p < f["hi"] for f in e["failed"])


def _mut_lost(e):
    # a point of an accepted range that is in no shard afterwards
    if e["ev"] == "Insert" and e["res"] == "ok":
        for p in range(e["n"]):
            if _placed(e, p) and len(e["w"][p]) == 1:
                e["w"][p] = []
                return True
    return False


def _mut_noncontiguous(e):
    # the middle one of three neighbours of the id-sorted batch sits in another shard
    if e["ev"] == "Insert" and e["res"] == "ok":
        nsh = max(len(r["k"]) for r in e["state"] if r["u"] == e["u"] and r["c"] == e["c"])
        for p in range(e["n"] - 2):
            if all(_placed(e, x) for x in (p, p + 1, p + 2)) and e["w"][p] == e["w"][p + 1] == e["w"][p + 2] and nsh >= 2:
                a = e["w"][p][0]
                e["w"][p + 1] = [a - 1 if a > 1 else a + 1]
                return True
    return False


def _mut_overfull(e):
    # a shard above the per-shard maximum; batch size and quota are raised with it so that only the maximum is off
    if e["ev"] == "Insert" and e["res"] == "ok" and not e["failed"]:
        for r in e["state"]:
            if r["u"] == e["u"] and r["c"] == e["c"] and r["k"]:
                r["k"][0] += 50
                e["n"] += 50
                e["maxPts"] += 50
                e["w"] = [[1]] * 50 + e["w"]     # the 50 extra points head the id-sorted batch, all in the first shard
                e["pre"] = [[]] * 50 + e["pre"]
                e["dup"] = [0] * 50 + e["dup"]
                return True
    return False


@prop("C15", "model_checking")
def c15(res, tier, seed, replay):
    if replay:
        replay_run(res, replay, default_module="PlacementTrace")
        return
    # ---- design level
    design_check(res, "Placement", "Placement.cfg" if tier == "quick" else "Placement.deep.cfg", timeout=2400)
    design_check(res, "Placement", "Placement.live.cfg")
    expect_design_violation(res, "Placement", "Placement.geq.cfg", "InvFresh",
                            "limit test with >= instead of > (a shard is opened although the last one could take the point)")
    expect_design_violation(res, "Placement", "Placement.nofresh.cfg", "InvPartition",
                            "no fresh shard opened when the last one is exhausted (points left unassigned)")
    expect_design_violation(res, "Placement", "Placement.testfirst.cfg", "InvCountLimit",
                            "limits tested before the point is added (a shard ends one point above its maximum)")
    # ---- the real code
    runs = []
    nparts = 8
    for p in range(nparts):   # the enumeration of Placement.cfg, complete
        runs.append({"name": f"enum-{p}", "args": ["-mode", "enum", "-existing", 3, "-fill", 3, "-pts", 5, "-zmax", 6, "-cmax", 3,
                                                    "-part", p, "-of", nparts]})
    if tier == "thorough":
        for p in range(nparts):   # count and size of the existing shards independent, <= 2 shards: complete
            runs.append({"name": f"enum2-{p}", "args": ["-mode", "enum", "-all-fills", "-existing", 2, "-fill", 3, "-pts", 5,
                                                         "-zmax", 6, "-cmax", 3, "-part", p, "-of", nparts]})
        for p in range(nparts):   # ... <= 3 shards (the input space of Placement.deep.cfg): one seeded eighth
            runs.append({"name": f"enum3-{p}", "args": ["-mode", "enum", "-all-fills", "-existing", 3, "-fill", 3, "-pts", 5,
                                                         "-zmax", 6, "-cmax", 3, "-part", (seed % 8) * nparts + p, "-of", 8 * nparts]})
    nrand, per = (3, 2000) if tier == "quick" else (12, 5000)
    for s in range(nrand):
        runs.append({"name": f"random-{s}", "args": ["-mode", "random", "-seed", seed * 100 + s, "-n", per]})
    ne2e, hists, steps = (4, 6, 60) if tier == "quick" else (12, 12, 120)
    for s in range(ne2e):
        runs.append({"name": f"e2e-{s}", "args": ["-mode", "e2e", "-seed", seed * 100 + s, "-hist", hists, "-steps", steps]})
    # thousand-point requests (per-shard maximum 3000): count identity and failed ranges when a stored id sits in the middle
    for s in range(1 if tier == "quick" else 4):
        runs.append({"name": f"e2e-big-{s}", "timeout": 1200, "tlc_timeout": 1800,
                     "args": ["-mode", "e2e", "-big", "-seed", seed * 100 + 50 + s, "-hist", 2, "-steps", 10]})
    results = drive_and_validate(res, runs, module="PlacementTrace", cmd="placement", workers=min(vlib.NCPU, 12))

    # ---- coverage (counted from the traces and from what TLC printed; no verdict is taken here)
    cases = same = early = 0
    for r in results:
        tv = r.get("tv")
        if tv and tv["accepted"]:
            m = COV_RE.findall(tv["raw"])
            if m:
                c, s, e = (int(x) for x in m[-1])
                cases, same, early = cases + c, same + s, early + e
    stat = {"insert_ok": 0, "insert_quota": 0, "create_ok": 0, "create_quota": 0, "create_exists": 0, "delete": 0, "sick_inserts": 0, "sick_inserts_beyond_quota": 0, "create_races": 0, "race_create_ok": 0, "race_create_quota": 0,
            "inserts_with_failed_ranges": 0, "inserts_spanning_shards": 0, "inserts_opening_shards": 0, "max_shards": 0,
            "histories": 0, "errors": 0}
    distinct = set()
    cand = {"case": [], "failed": [], "iquota": [], "cquota": []}
    err_sample = None
    for r in results:
        if not os.path.exists(r["trace"]):
            continue
        name = r["run"]["name"]
        prev = {}
        with open(r["trace"]) as f:
            for line in f:
                if '"ev":"Case"' in line:
                    if name.startswith("random"):
                        e = json.loads(line)
                        distinct.add(("random", len(e["sh"]), len(e["d"]), e["created"], len(e["asg"])))
                        if 3 <= len(e["asg"]) <= 6 and e["created"] >= 1 and len(e["d"]) <= 40:
                            cand["case"].append(summarize_event(line, 700))
                    continue
                e = json.loads(line)
                if e["ev"] == "Node":
                    stat["histories"] += 1
                    prev = {}
                    continue
                if e["ev"] == "SickInsert":
                    # (an error is the expected answer while a shard cannot be opened)
                    stat["sick_inserts"] = stat.get("sick_inserts", 0) + 1
                    stat["sick_insert_" + e["res"]] = stat.get("sick_insert_" + e["res"], 0) + 1
                    cur = {(x["u"], x["c"]): x["k"] for x in e["state"]}
                    before = prev.get((e["u"], e["c"]), [])
                    if sum(before) + e["n"] > e["maxPts"]:
                        stat["sick_inserts_beyond_quota"] = stat.get("sick_inserts_beyond_quota", 0) + 1
                    prev = cur
                    continue
                if e.get("res") == "error":
                    stat["errors"] += 1
                    err_sample = err_sample or summarize_event(line, 400)
                cur = {(x["u"], x["c"]): x["k"] for x in e["state"]}
                if e["ev"] == "CreateRace":
                    stat["create_races"] = stat.get("create_races", 0) + 1
                    for r in e["reqs"]:
                        stat["race_create_" + r["res"]] = stat.get("race_create_" + r["res"], 0) + 1
                        if r["res"] == "error":
                            stat["errors"] += 1
                            err_sample = err_sample or summarize_event(line, 400)
                    distinct.add(("race", e["maxCols"], sum(1 for k in prev if k[0] == e["u"]), tuple(sorted(r["res"] for r in e["reqs"]))))
                    prev = cur
                    continue
                key = (e["u"], e["c"])
                if e["ev"] == "Insert":
                    stat["insert_" + e["res"]] = stat.get("insert_" + e["res"], 0) + 1
                    before, after = prev.get(key, []), cur.get(key, [])
                    grown = sum(1 for i, k in enumerate(after) if k > (before[i] if i < len(before) else 0))
                    if e["failed"]:
                        stat["inserts_with_failed_ranges"] += 1
                    if grown >= 2:
                        stat["inserts_spanning_shards"] += 1
                    if len(after) > len(before):
                        stat["inserts_opening_shards"] += 1
                    stat["max_shards"] = max(stat["max_shards"], len(after))
                    distinct.add(("insert", e["res"], e["n"], len(before), len(after), len(e["failed"]), grown))
                    if e["failed"] and grown >= 1:
                        cand["failed"].append(summarize_event(line, 600))
                    elif e["res"] == "quota" and before:
                        cand["iquota"].append(summarize_event(line, 400))
                elif e["ev"] == "Create":
                    stat["create_" + e["res"]] = stat.get("create_" + e["res"], 0) + 1
                    distinct.add(("create", e["res"], e["maxCols"], sum(1 for k in prev if k[0] == e["u"])))
                    if e["res"] == "quota":
                        cand["cquota"].append(summarize_event(line, 400))
                else:
                    stat["delete"] += 1
                prev = cur
    for kind, k in (("case", 2), ("failed", 2), ("iquota", 1), ("cquota", 1)):
        for x in cand[kind][:k]:
            res.sample(x, cap=8)
    res.coverage["implementation_cases_checked"] = cases
    res.coverage["implementation_cases_equal_to_transcription"] = same
    res.coverage["end_to_end"] = stat
    res.coverage["distinct_nontrivial"] = len(distinct)
    res.coverage["refusals_within_quota"] = early
    if early:
        res.notes.append(f"{early} request(s) were refused with 'quota reached' although within the quota (no effect; accepted: the "
                         "property only demands refusal beyond the quota)")
    if stat["errors"]:
        raise Inconclusive(f"{stat['errors']} request(s) ended in an internal error on a healthy node: {err_sample}")
    if not res.violations:
        if cases == 0:
            raise Inconclusive("no placement case reached the trace validator (vacuous)")
        for k in ("insert_ok", "insert_quota", "create_ok", "create_quota", "create_races", "race_create_ok", "race_create_quota", "sick_inserts", "sick_inserts_beyond_quota", "inserts_with_failed_ranges",
                  "inserts_spanning_shards", "inserts_opening_shards"):
            if stat[k] == 0:
                raise Inconclusive(f"end-to-end histories never exercised '{k}' (vacuous)")

    # ---- binding self-tests: a corrupted copy of an accepted trace must be rejected
    binding_selftest(res, results, _mut_overlap, module="PlacementTrace", what="a range of a real assignment lengthened by one point")
    binding_selftest(res, results, _mut_boundary, module="PlacementTrace",
                     what="boundary between two ranges of a real assignment moved by one point")
    binding_selftest(res, results, _mut_created, module="PlacementTrace", what="one more shard reported as opened")
    e2e = [r for r in results if r["run"]["name"].startswith("e2e")]
    binding_selftest(res, e2e, _mut_total, module="PlacementTrace", what="a shard's point count one short after an accepted insert")
    binding_selftest(res, [r for r in e2e if "big" not in r["run"]["name"]], _mut_race_twice, module="PlacementTrace",
                     what="one name created by two requests of a creation race")
    binding_selftest(res, e2e, _mut_lost, module="PlacementTrace", what="a point of an accepted range found in no shard")
    binding_selftest(res, e2e, _mut_noncontiguous, module="PlacementTrace",
                     what="a shard's share of the id-sorted batch made non-contiguous")
    binding_selftest(res, e2e, _mut_quota_insert, module="PlacementTrace", what="a point left behind by an insert refused for quota")
    binding_selftest(res, e2e, _mut_quota_create, module="PlacementTrace", what="a creation beyond the collection quota reported as accepted")
    binding_selftest(res, e2e, _mut_overfull, module="PlacementTrace", invariants=("WF",),
                     what="a shard far above the per-shard maximum (batch size and quota adjusted to keep the totals consistent)")

    res.coverage["exhaustive"] = True
    res.coverage["rule"] = ("unit level: the complete small-input enumeration of Placement.cfg (0..3 existing shards with fill 0..3, 0..5 "
                            "points of size 1..2, size limits 1..6, count limits 1..3, one point fits an empty shard; thorough adds "
                            "independent count / size fills) and seeded random inputs (<= 6 shards incl. full and over-full ones, <= 120 "
                            "points, sizes up to the maximum) go through the real distributePoints; TLC checks ValidAssignment on each "
                            "real output. End to end: random request sequences of two users on a fresh single-server node (per-shard "
                            "maxima 1/2/3/5 points, size maximum 1 GiB or below one shard file), batches sized at quota-left -1/0/+1, "
                            "re-inserted and duplicated ids (failed ranges), plan changes below the current use, deletions and "
                            "re-creations; after every request all collections and per-shard counts are compared by TLC with the model, "
                            "and every shard is asked (shard-level _id lookup) which ids of the batch it holds: each new id of a "
                            "non-failed range is in exactly one shard, of a failed range in none, and a shard's share is contiguous "
                            "in the id-sorted batch (reference order by bytes.Compare). "
                            "A case is non-trivial/distinct by (kind, outcome, batch size, shards before/after, failed ranges, shards grown)")
    res.assumptions += ["shards are named by their position in the collection's shard list (abstraction done by the harness)",
                        "a point's size is its data length plus 16 bytes of id (PlacementTrace.tla IdLen), as the size maximum is "
                        "defined over the sizes the placement step is given, not over file sizes",
                        "inputs outside the precondition (a point larger than the size maximum, count maximum 0) are never fed: the "
                        "real loop would not terminate on them",
                        "a refusal with 'quota reached' within the quota is accepted when it has no effect (counted in refusals_within_quota)",
                        "single server, sequential requests; RPC routing and concurrent inserts into one collection are outside this check"]
