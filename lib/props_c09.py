"""C09: concurrent searches and writes (ShardCache.tla design + concurrent driver validated by ShardTrace.tla TCSearch)
   C08: durability and independence of cache state / backend."""
import json
import os
import re

import props
import vlib
from props import (prop, design_check, expect_design_violation, drive_and_validate, binding_selftest, known_names, summarize_event,
                   CRASH_RE, sample_from_trace_nonempty, CACHES, METRICS)
from vlib import Inconclusive

props.META["C09"] = dict(
    technique="TLA+ snapshot/shared-cache spec (ShardCache.tla) model-checked with defect switches; concurrent searcher / writer runs on a real shard validated by TLC against the version history of Shard.tla (ShardTrace.tla TCSearch)",
    design_ref="DESIGN.md 5 C09",
    text=("The design of MVCC snapshots x shared cache is model-checked (ideal design passes; the pinned behaviours are switches whose "
          "violations TLC must find). On the real shard N searchers run against a writer stream; every search is logged with the window "
          "of committed versions it may have seen and TLC checks that each returned point was live with exactly that document in one of "
          "them; afterwards the sequential model must hold warm and cold. Crashes and search errors are violations."),
    note=("free-running schedules are sampled by repetition and cold-start bursts; forced schedules (behaviours of ShardCache.tla from TLC "
          "simulation plus hand-written ones) are replayed through gates of the storage proxy, the cache manager (H2) and the graph search "
          "(H6, H6b): a search that begins when no batch is open is judged exactly, also against a single search on a cold copy; trusted: bbolt "
          "MVCC; known findings C09-a (crash-stack signature), C09-b, C09-c (trace signatures)"))

props.META["C08"] = dict(
    technique="TLA+ reference model as single oracle for warm / evicted / cold / memory-backend answers (ShardTrace.tla), ShardCache.tla design check",
    design_ref="DESIGN.md 5 C08",
    text=("The same TLA+ model state validates every answer of the live instance, of the instance after eviction, of a fresh instance on a "
          "copy of the file after every batch, after reopen, and of the in-memory backend, for all index types and cache sizes; graph "
          "searches are additionally compared pairwise warm vs cold."),
    note="trusted: TLC; product quantiser covered by pair comparison only")

SIG_C09A = ("cache.(*ItemCache", "bbolt.(*", "SearchPoints")


def conc_runs(tier, seed):
    runs = []
    n = 2 if tier == "quick" else 8
    for s in range(n):
        for cfgname, cache, ctag in (("kitchen", "0", "off"), ("kitchen", "-1", "unl"), ("kitchen", "3000", "tiny"), ("text", "0", "off")):
            runs.append({"name": f"conc-{cfgname}-{ctag}-{s}", "timeout": 600,
                         "args": ["-mode", "conc", "-config", cfgname, "-cache", cache, "-seed", seed * 100 + s, "-hist", 2 if tier == "quick" else 4,
                                  "-batches", 40, "-readers", 8, "-rank", 1]})
        # the same on a slow disk (storage reads of the write transaction take 0.3 ms): the batches stay open longer
        runs.append({"name": f"conc-kitchen-slowdisk-{s}", "timeout": 600,
                     "args": ["-mode", "conc", "-config", "kitchen", "-cache", "-1", "-slowget-us", 300, "-seed", seed * 100 + 20 + s,
                              "-hist", 2, "-batches", 30, "-readers", 8, "-rank", 1]})
        # a second shard on the same bounded cache manager receives a write stream too (multi-shard node)
        runs.append({"name": f"conc-other-{s}", "timeout": 600,
                     "args": ["-mode", "conc", "-other", "-config", "kitchen", "-nids", 200, "-cache", "2000000", "-seed", seed * 100 + 30 + s,
                              "-hist", 2, "-batches", 30, "-readers", 8, "-rank", 1]})
    # cold-start bursts of 16 searchers on a large graph (reopen, burst, join; then with the writer)
    for s in range(1 if tier == "quick" else 4):
        runs.append({"name": f"conc-cold-off-{s}", "timeout": 900, "tlc_timeout": 1800,
                     "args": ["-mode", "conc", "-cold", "-config", "vamana-wide", "-nids", 2500, "-maxbatch", 400, "-cache", "0", "-seed", seed * 100 + 50 + s,
                              "-hist", 1, "-batches", 6, "-readers", 16, "-rank", 1]})
        runs.append({"name": f"conc-cold-unl-{s}", "timeout": 900, "tlc_timeout": 1800, "expect_kf": "C09-a",
                     "args": ["-mode", "conc", "-cold", "-config", "vamana-wide", "-nids", 2500, "-maxbatch", 400, "-cache", "-1", "-seed", seed * 100 + 60 + s,
                              "-hist", 1, "-batches", 6, "-readers", 16, "-rank", 1]})
    return runs


@prop("C09", "model_checking")
def c09(res, tier, seed, replay):
    vlib.build_harness()
    kn = known_names(res.pid)
    if replay:
        props.replay_run(res, replay)
        return
    design_check(res, "ShardCache", "ShardCache.small.cfg" if tier == "quick" else "ShardCache.ideal.cfg", timeout=2400)
    if tier == "thorough":
        design_check(res, "ShardCache", "ShardCache.pinned.cfg", timeout=3000)
    expect_design_violation(res, "ShardCache", "ShardCache.unlocked.cfg", "ReaderSnapshotConsistent",
                            "a reader that does not keep the cache's read lock: the writer attaches meanwhile and the reader sees the open batch")
    expect_design_violation(res, "ShardCache", "ShardCache.pinned-crash.cfg", "NoClosedBucketRead",
                            "every attaching reader installs its bucket handle in the shared cache object (pinned behaviour)")
    expect_design_violation(res, "ShardCache", "ShardCache.pinned-stale.cfg", "CoherentWhenIdle",
                            "readers attach / create the shared cache without a version check (pinned behaviour)")
    runs = conc_runs(tier, seed)
    # runs expected to hit the known crash are driven here so that the crash can be matched by signature
    normal = [r for r in runs if "expect_kf" not in r]
    risky = [r for r in runs if "expect_kf" in r]
    pending = None
    try:
        results = drive_and_validate(res, normal)
    except Inconclusive as e:
        # (a free-running driver that hangs is no verdict by itself; the forced schedules below may show why)
        pending, results = e, []
    for r in risky:
        name = r["name"]
        out = os.path.join(vlib.subdir("traces"), name + ".ndjson")
        rc, so, se = vlib.run_vh(["shard"] + r["args"] + ["-out", out, "-dir", vlib.subdir("db-" + name)], timeout=r["timeout"])
        if rc != 0 and CRASH_RE.search(se):
            stack = se
            # the goroutine that crashed
            m = re.search(r"goroutine \d+[^\n]*\[running\]:\n(.*?)(\n\n|\Z)", se, re.S)
            crashing = m.group(1) if m else se
            if "C09-a" in kn and all(x in crashing for x in SIG_C09A):
                res.known["C09-a"] = kn["C09-a"]["what"]
                res.add("known_crash_runs", 1)
                # what was logged before the process died is judged all the same (complete lines only)
                part = out + ".partial"
                nl = 0
                if os.path.exists(out):
                    with open(out) as f, open(part, "w") as g:
                        for line in f:
                            try:
                                json.loads(line)
                            except ValueError:
                                break
                            if not line.endswith("\n"):
                                break
                            g.write(line)
                            nl += 1
                if nl:
                    tv = vlib.tlc_trace("ShardTrace", part, known=kn.keys(), name=name + "-partial")
                    res.add("trace_events", tv["lines"])
                    if not tv["accepted"]:
                        n = tv["matched"] + 1
                        line = vlib.read_line(part, n) or ""
                        res.violation(f"forced schedules {name} (the part logged before the known crash): no spec action explains line "
                                      f"{n}/{tv['lines']}: {summarize_event(line)}",
                                      files=[part, bf], meta={"cmd": "shard", "args": args, "line": n, "module": "ShardTrace"})
                continue
            errf = out + ".stderr"
            open(errf, "w").write(se)
            first = next((ln for ln in se.splitlines() if CRASH_RE.search(ln)), "")
            res.violation(f"process crashed during concurrent searches ({name}), stack does not match a known finding: {first[:200]}",
                          files=[errf], meta={"cmd": "shard", "args": r["args"]})
            continue
        if rc != 0:
            raise Inconclusive(f"driver {name} failed rc={rc}: {se[-1500:]}")
        results += drive_and_validate(res, [dict(r, name=name + "-v")])  # no crash this time: validate like the others
    # ---- forced schedules: behaviours of ShardCache.tla (pinned switches on) stepped through a real shard
    canon = [  # the two schedules behind the known findings, always included
        {"hist": [["RBegin", "r1"], ["WBegin", ""], ["WAttach", ""], ["WCommit", ""], ["RAttachShared", "r1"], ["REnd", "r1"]]},
        {"hist": [["RBegin", "r1"], ["RAttachNew", "r1"], ["RGetShared", "r1"], ["RBegin", "r2"], ["RAttachShared", "r2"], ["REnd", "r2"],
                  ["RGetShared", "r1"], ["REnd", "r1"]]},
        {"hist": [["WBegin", ""], ["WAttach", ""], ["RBegin", "r1"], ["WFail", ""], ["RAttachNew", "r1"], ["REnd", "r1"]]},
        # a shared object exists; the next batch fails while a reader stands between look-up and lock
        {"hist": [["WBegin", ""], ["WAttach", ""], ["WCommit", ""], ["WBegin", ""], ["WAttach", ""], ["RBegin", "r1"], ["WFail", ""],
                  ["RAttachCold", "r1"], ["REnd", "r1"], ["RBegin", "r2"], ["RAttachNew", "r2"], ["REnd", "r2"]]},
        # a reader in the middle of its search on the shared object when the next write batch asks for the cache
        # (the writer has to wait for it)
        {"hist": [["WBegin", ""], ["WAttach", ""], ["WCommit", ""], ["RBegin", "r1"], ["RAttachShared", "r1"], ["RGetShared", "r1"],
                  ["WBegin", ""], ["WAttach", ""], ["RGetShared", "r1"], ["RGetShared", "r1"], ["REnd", "r1"], ["WCommit", ""]]},
        # the same with the reader on an object it created itself, and with batches that fail
        {"hist": [["RBegin", "r1"], ["RAttachNew", "r1"], ["RGetShared", "r1"], ["WBegin", ""], ["WAttach", ""], ["RGetShared", "r1"],
                  ["REnd", "r1"], ["WFail", ""]]},
        {"hist": [["WBegin", ""], ["WAttach", ""], ["WCommit", ""], ["RBegin", "r1"], ["RAttachShared", "r1"], ["RGetShared", "r1"],
                  ["WBegin", ""], ["WAttach", ""], ["RGetShared", "r1"], ["RGetShared", "r1"], ["REnd", "r1"], ["WFail", ""]]},
        # two readers in the middle of their searches
        {"hist": [["WBegin", ""], ["WAttach", ""], ["WCommit", ""], ["RBegin", "r1"], ["RAttachShared", "r1"], ["RGetShared", "r1"],
                  ["RBegin", "r2"], ["RAttachShared", "r2"], ["WBegin", ""], ["WAttach", ""], ["RGetShared", "r2"], ["REnd", "r1"],
                  ["RGetShared", "r2"], ["REnd", "r2"], ["WCommit", ""]]},
        # a write batch (a delete) arrives while a search is still reading for the cache object it creates; a later
        # search aims at a deleted point
        {"hist": [["RBegin", "r1"], ["RAttachNew", "r1"], ["WBegin", "", "delete"], ["WAttach", ""], ["REnd", "r1"], ["WCommit", ""],
                  ["RBegin", "r2"], ["RAttachShared", "r2"], ["REnd", "r2"]]},
        # no writer at all: a second search passes a node whose neighbours the first one has read but not yet published
        # (hook H6b); its answer is compared with a single search on a cold copy of the file (VamanaPair forced/single)
        {"hist": [["RBegin", "r1"], ["RAttachNew", "r1"], ["RUntil", "r1", "LoadNeighbours+verifSearchStep"], ["RBegin", "r2"],
                  ["RAttachShared", "r2"], ["REnd", "r2"], ["REnd", "r1"]]},
        # a search holds the shared object for more than two seconds while a write batch waits for it; a search that
        # begins after the commit is compared with a single search on a cold copy of the file
        {"hist": [["WBegin", ""], ["WAttach", ""], ["WCommit", ""], ["RBegin", "r1"], ["RAttachShared", "r1"], ["RGetShared", "r1"],
                  ["WBegin", "", "insert"], ["WAttach", ""], ["Pause", "", "1200"], ["RGetShared", "r1"], ["REnd", "r1"], ["WCommit", ""],
                  ["RBegin", "r2"], ["RAttachShared", "r2"], ["REnd", "r2"]]},
    ]
    nb = 240 if tier == "quick" else 3000
    behs = vlib.tlc_simulate("ShardCacheSim", "ShardCache.sim.cfg", nb, 200, seed, timeout=1200)
    # (the schedule of C09-a kills the process: it gets chunks of its own)
    chunk = 60
    behs = [canon[1]] * chunk + ([canon[0], canon[2], canon[3], canon[3]] * 8 + [canon[4], canon[5], canon[6], canon[7]] * 3 + [canon[8]] * 8 + [canon[9]] * 4 + [canon[10]] * 3 + behs)
    res.coverage["forced_schedule_behaviours"] = len(behs)
    forced = 0
    fresults = []
    jobs = []
    for ci in range(0, len(behs), chunk):
        for cfgname in (("vamana-euclidean", "flat-euclidean") if tier == "thorough" or ci <= chunk else ("vamana-euclidean",)):
            jobs.append((ci, cfgname))

    def run_chunk(job):
        ci, cfgname = job
        name = f"sched-{cfgname}-{ci // chunk}"
        bf = os.path.join(vlib.subdir("traces"), name + ".behaviours")
        with open(bf, "w") as f:
            f.write("\n".join(json.dumps(b) for b in behs[ci:ci + chunk]) + "\n")
        out = os.path.join(vlib.subdir("traces"), name + ".ndjson")
        args = ["-mode", "sched", "-config", cfgname, "-nids", 500, "-behaviours", bf, "-seed", seed * 100 + ci // chunk]
        rc, so, se = vlib.run_vh(["shard"] + args + ["-out", out, "-dir", vlib.subdir("db-" + name)], timeout=1500)
        return name, args, bf, out, rc, so, se
    for name, args, bf, out, rc, so, se in vlib.pmap(run_chunk, jobs, workers=6):
        if rc != 0 and CRASH_RE.search(se):
            m = re.search(r"goroutine \d+[^\n]*\[running\]:\n(.*?)(\n\n|\Z)", se, re.S)
            crashing = m.group(1) if m else se
            if "C09-a" in kn and all(x in crashing for x in SIG_C09A):
                res.known["C09-a"] = kn["C09-a"]["what"]
                res.add("known_crash_runs", 1)
                # what was logged before the process died is judged all the same (complete lines only)
                part = out + ".partial"
                nl = 0
                if os.path.exists(out):
                    with open(out) as f, open(part, "w") as g:
                        for line in f:
                            try:
                                json.loads(line)
                            except ValueError:
                                break
                            if not line.endswith("\n"):
                                break
                            g.write(line)
                            nl += 1
                if nl:
                    tv = vlib.tlc_trace("ShardTrace", part, known=kn.keys(), name=name + "-partial")
                    res.add("trace_events", tv["lines"])
                    if not tv["accepted"]:
                        n = tv["matched"] + 1
                        line = vlib.read_line(part, n) or ""
                        res.violation(f"forced schedules {name} (the part logged before the known crash): no spec action explains line "
                                      f"{n}/{tv['lines']}: {summarize_event(line)}",
                                      files=[part, bf], meta={"cmd": "shard", "args": args, "line": n, "module": "ShardTrace"})
                continue
            errf = out + ".stderr"
            open(errf, "w").write(se)
            first = next((ln for ln in se.splitlines() if CRASH_RE.search(ln)), "")
            res.violation(f"process crashed under a forced schedule ({name}), stack does not match a known finding: {first[:200]}",
                          files=[bf, errf], meta={"cmd": "shard", "args": args})
            continue
        if rc != 0:
            raise Inconclusive(f"driver {name} failed rc={rc}: {se[-1500:]}")
        tv = vlib.tlc_trace("ShardTrace", out, known=kn.keys(), name=name)
        res.add("traces_validated_against_impl", 1)
        res.add("trace_events", tv["lines"])
        for k in tv["kf"]:
            if k in kn:
                res.known[k] = kn[k]["what"]
        if not tv["accepted"]:
            n = tv["matched"] + 1
            line = vlib.read_line(out, n) or ""
            res.violation(f"forced schedules {name}: no spec action explains line {n}/{tv['lines']}: {summarize_event(line)}",
                          files=[out, bf], meta={"cmd": "shard", "args": args, "line": n, "module": "ShardTrace"})
            continue
        fresults.append({"trace": out, "tv": tv, "run": {"name": name, "args": args}})
        with open(out) as f:
            forced += sum(1 for line in f if '"forced":1' in line)
    res.coverage["searches_under_forced_schedules_judged_exactly"] = forced
    results += fresults
    if pending is not None:
        raise pending
    nsearch = 0
    overlapped = 0
    for r in results:
        if os.path.exists(r["trace"]):
            with open(r["trace"]) as f:
                for line in f:
                    if '"ev":"CSearch"' in line:
                        nsearch += 1
                        e = json.loads(line)
                        if e["b"] > e["a"]:
                            overlapped += 1
                            if e["docs"]:
                                res.sample(summarize_event(line, 400), cap=3)
    res.coverage["concurrent_searches"] = nsearch
    res.coverage["searches_overlapping_a_commit"] = overlapped
    if overlapped < 20:
        raise Inconclusive("too few searches overlapped a write batch (vacuous)")

    def mut(e):
        if e["ev"] == "CSearch" and e["docs"] and e["docs"][0]["f"]:
            d = e["docs"][0]["f"]
            k = sorted(d)[0]
            d[k] = d[k] + "Z"   # a document that was never committed
            return True
        return False
    binding_selftest(res, results, mut, what="a concurrent search returned a document that was never committed")
    res.coverage["rule"] = ("N searcher goroutines (id lookups, filters, flat and graph searches, select *) run against a stream of random "
                            "insert / update / delete batches on a file-backed shard with the shared cache off / unlimited / tiny, plus "
                            "cold-start bursts of 16 searchers on a reopened 2000-point graph; each search is logged with the interval of write "
                            "batches finished before it began / started before it ended and TLC requires every returned point to be live "
                            "with exactly that document in one committed version of that interval; after the writers finish the warm and the "
                            "reopened instance are validated against the sequential model; crashes and search errors are violations")
    res.coverage["rule"] += ("; in addition behaviours of ShardCache.tla (TLC simulation, both pinned switches on, plus the schedules behind the "
                             "two known findings) are forced on a real shard through the storage proxy (transaction begun / closure returned / "
                             "transaction over / storage read inside a search) and the cache manager's yield points: every answer of those searches "
                             "must be exactly the version that was committed when its storage transaction began")
    res.assumptions += ["free-running interleavings are sampled; forced schedules are at the granularity of the gates named above", "a search's snapshot lies between the last batch that returned before it began "
                        "and the last batch that had started when it ended"]


@prop("C08", "model_checking")
def c08(res, tier, seed, replay):
    if replay:
        props.replay_run(res, replay)
        return
    design_check(res, "ShardCache", "ShardCache.small.cfg" if tier == "quick" else "ShardCache.ideal.cfg", timeout=2400)
    design_check(res, "ShardMC", "ShardMC.cfg")
    runs = []
    nseeds = 1 if tier == "quick" else 3
    cfgs = ["kitchen", "text", "scalars-ne", "flat-hamming", "flat-dot", "vamana-euclidean", "vamana-jaccard"] if tier == "quick" else \
        ["kitchen", "text", "scalars-ne"] + [f"flat-{m}" for m in METRICS] + [f"vamana-{m}" for m in METRICS]
    hist, batches = (2, 10) if tier == "quick" else (5, 25)
    for s in range(nseeds):
        for cfgname in cfgs:
            for cache, ctag in CACHES:
                runs.append({"name": f"cache-{cfgname}-{ctag}-{s}",
                             "args": ["-mode", "cache", "-repeat-upd", "-config", cfgname, "-cache", cache, "-seed", seed * 100 + s, "-hist", hist,
                                      "-batches", batches, "-rank", 3, "-panel-every", 3, "-sample", 40]})
            runs.append({"name": f"cache-{cfgname}-mem-{s}",
                         "args": ["-mode", "rank", "-config", cfgname, "-mem", "-seed", seed * 100 + 30 + s, "-hist", hist,
                                  "-batches", batches, "-rank", 3]})
    # trained quantisers: warm / cold pair comparison (the model does not recompute quantised distances)
    for s in range(nseeds):
        runs.append({"name": f"cache-flat-pq-{s}", "timeout": 900,
                     "args": ["-mode", "cache", "-insert-only", "-config", "flat-pq", "-nids", 3000, "-maxbatch", 300, "-seed", seed * 100 + 80 + s, "-hist", 1,
                              "-batches", 16, "-rank", 3, "-panel-every", 0]})
        for cfgname in ("flat-binlearn", "vamana-binlearn"):
            for cache, ctag in CACHES:
                runs.append({"name": f"cache-{cfgname}-{ctag}-{s}",
                             "args": ["-mode", "cache", "-repeat-upd", "-config", cfgname, "-cache", cache, "-seed", seed * 100 + 90 + s, "-hist", 2,
                                      "-batches", 14, "-rank", 3, "-panel-every", 0]})
    results = drive_and_validate(res, runs)
    for r in results[:1]:
        sample_from_trace_nonempty(res, r["trace"], "VamanaPair", cap=1)
        sample_from_trace_nonempty(res, r["trace"], "Flat", cap=1)

    def mut(e):
        # a cold answer that differs from the warm one
        if e["ev"] == "Quiet" and e.get("what") == "coldcopy":
            mut.cold = True
        if mut.cold and e["ev"] in ("Flat", "Vamana", "Text") and len(e.get("hits", [])) >= 2:
            e["hits"] = e["hits"][:-1]
            return True
        if mut.cold and e["ev"] == "Get" and e["docs"]:
            e["docs"] = e["docs"][1:]
            return True
        return False
    mut.cold = False
    binding_selftest(res, results, mut, what="an answer of the cold copy lost one result")
    res.coverage["rule"] = ("histories over all index types under cache sizes unlimited / off / tiny (eviction) on bbolt: after every batch "
                            "the point reads, filter sample, ranking queries are answered warm, after eviction, and by a fresh instance on a "
                            "copy of the file, after random reopen points, and on the in-memory backend; all are validated by TLC against one "
                            "model state; graph searches are also compared warm vs cold pairwise")
    res.assumptions += ["with trained quantisers (product, learned binary) warm and cold answers are compared pairwise; the quantised distance itself is not recomputed by the model"]
