"""C06: hybrid scores, field selection, sorting and paging behave as documented.

Design level : spec/SearchMC.tla  - the declarative oracle of spec/SearchOps.tla (merge of sub-results, order
               "ranked first / hybrid score descending" or sort keys with missing last, page = contiguous slice of SOME
               linearisation, stated by counting) against an operational model of a search over every small input and
               every tie-break; five negative configurations.
Conformance  : `vh search` runs random write histories on a real shard (ShardTrace events, replayed on the reference
               model) and after every batch random composite requests (query tree, select, sort, offset, limit);
               spec/SearchTrace.tla (EXTENDS ShardTrace) judges every answer with the state invariant C06Search."""
import json
import os
import re

import props
import vlib
from props import prop, drive_and_validate, binding_selftest, Inconclusive, summarize_event

props.META["C06"] = dict(
    technique=("TLA+ oracle for composite search (SearchOps.tla) model-checked against an operational model over all small inputs "
               "and all tie-breaks (SearchMC.tla, 5 negative configurations); TLC trace validation (SearchTrace.tla on top of "
               "ShardTrace.tla) of random composite requests on a real shard after random write histories"),
    design_ref="DESIGN.md 5 C06",
    text=("For random query trees (depth <= 3, up to 4 ranking leaves - flat vectors, text, graph index in its exact regime - with "
          "weights -2..2 incl. 0 / absent, limits, pre-filters, and filter / _id leaves under _and / _or), random select lists "
          "(top-level fields, nested paths, '*', never-stored paths), 0..10 sort keys over indexed integer / float / string "
          "properties (ascending / descending, nested, missing on some points), offsets 0..n+2 and limits 1..100, issued after every "
          "batch of random insert / update / delete histories under five schemas and caches unlimited / off, TLC recomputes from the "
          "reference model the result set (union / intersection), the ranked subset, every hybrid score (sum of contributions), and "
          "accepts the returned page only if it is a contiguous slice of some linearisation of the documented order with exactly "
          "the selected stored values. Ties are free; a cut of a ranking leaf inside a tie group is reasoned about existentially "
          "(all valid top sets). Conformance of sampled requests plus model checking of the oracle; not a proof for all requests."),
    note=("trusted: ShardTrace / Docs reference model (documents, filters, exact kNN, tf-idf), the harness' abstraction of "
          "documents (leaf decomposition of stored values computed from the generated document, canonical JSON), TLC. Sort keys "
          "are restricted to indexed scalar properties and are always covered by the select list (documented precondition); "
          "select paths that run through stored scalars / arrays have no documented meaning and are only classified; text scores "
          "within 8e-5 (+ float32 rounding of sums); graph index only with a pre-filter that fits the search window. Known finding "
          "C06-singleton is excused by signature."))

INV = ("WF", "C06Search")
NEG = [("SearchMC.assign.cfg", "hybrid score overwritten ('=') instead of summed ('+=')"),
       ("SearchMC.nosort.cfg", "ranked list not re-sorted by hybrid score when no score was summed"),
       ("SearchMC.offset_after_limit.cfg", "page cut at limit first, offset applied after"),
       ("SearchMC.missing_first.cfg", "comparator puts missing sort values first"),
       ("SearchMC.ranked_last.cfg", "unranked points in front of the ranked ones")]
C06_RE = re.compile(r'<<\s*"C06",(.*?)>>', re.S)
COUNTERS = ("judged", "kf", "unjudged", "paged", "sorted", "summed", "mixed", "tiecut", "multipage",
            "rob_collide_err", "rob_collide_ok", "rob_free_ok", "rob_amb_err")


def design_phase(res, tier):
    pos = "SearchMC.cfg" if tier == "quick" else "SearchMC.deep.cfg"
    jobs = [("pos", pos, None)] + [("neg", c, w) for c, w in NEG]

    def one(job):
        kind, cfg, what = job
        return job, vlib.tlc_model_check("SearchMC", cfg, workers=8 if kind == "pos" else 2, timeout=1500, heap="6g" if kind == "pos" else "2g",
                                         name=("neg-" if kind == "neg" else "") + cfg.replace(".cfg", ""))
    for (kind, cfg, what), r in vlib.pmap(one, jobs, workers=6):
        if kind == "pos":
            if not r["ok"]:
                raise Inconclusive(f"design spec SearchMC/{cfg} failed TLC: {r['error']}\n{r['raw'][-2500:]}")
            res.add("states", r["distinct"])
            res.add("transitions", r["generated"])
            res.coverage.setdefault("design_runs", []).append(
                {"module": "SearchMC", "cfg": cfg, "distinct": r["distinct"], "generated": r["generated"], "depth": r["depth"],
                 "wall_s": r["wall_s"]})
        else:
            if r["ok"] or "Invariant ImplAccepted is violated" not in (r["raw"] or ""):
                raise Inconclusive(f"design self-test failed: SearchMC/{cfg} should violate ImplAccepted\n{(r['raw'] or '')[-1500:]}")
            res.coverage.setdefault("design_selftests", []).append(f"{what}: TLC reports ImplAccepted violated ({cfg})")


def plan(tier, seed):
    runs = []

    def add(cfg, cache, s, hist, batches, per, rob=1, nids=0, maxbatch=0, mem=False):
        tag = "mem" if mem else ("unl" if cache == "-1" else "off")
        name = f"search-{cfg}-{tag}" + (f"-n{nids}" if nids else "") + f"-{s}"
        args = ["-config", cfg, "-cache", cache, "-seed", seed * 1000 + s, "-hist", hist, "-batches", batches, "-per", per, "-rob", rob]
        if nids:
            args += ["-nids", nids, "-maxbatch", maxbatch]
        if mem:
            args += ["-mem"]
        runs.append({"name": name, "args": args, "timeout": 900, "tlc_timeout": 1500})
    if tier == "quick":
        add("kitchen", "-1", 1, 3, 10, 10)
        add("kitchen", "0", 2, 3, 10, 10)
        add("text", "-1", 3, 3, 10, 10)
        add("flat-euclidean", "0", 4, 3, 10, 10)
        add("flat-dot", "-1", 5, 3, 10, 10)
        add("scalars-ne", "-1", 6, 2, 10, 10, nids=30, maxbatch=12)
        add("kitchen", "0", 7, 2, 8, 10, nids=24, maxbatch=10)
        add("flat-euclidean", "-1", 8, 2, 8, 10, nids=24, maxbatch=10)
    else:
        s = 0
        for rep in range(6):
            for cfg in ("kitchen", "text", "flat-euclidean", "flat-dot", "scalars-ne"):
                for cache in ("-1", "0"):
                    s += 1
                    add(cfg, cache, s, 6, 16, 14)
        for cfg in ("kitchen", "text", "flat-euclidean", "flat-dot", "scalars-ne"):
            for cache in ("-1", "0"):
                s += 1
                add(cfg, cache, s, 3, 14, 14, nids=30, maxbatch=12)
        s += 1
        add("scalars-ne", "-1", s, 4, 14, 14, mem=True)
        s += 1
        add("flat-euclidean", "-1", s, 4, 14, 14, mem=True)
    return runs


def counters(raw):
    """Counters printed by SearchTrace.tla with the last line (the constraint may be evaluated more than once: last print wins)."""
    ms = C06_RE.findall(raw or "")
    if not ms:
        return None
    toks = re.findall(r'"([a-z_]+)",\s*(\d+)', ms[-1])
    return {k: int(v) for k, v in toks}


def search_lines(path):
    with open(path) as f:
        for n, line in enumerate(f, 1):
            if '"what":"Search"' in line:
                yield n, json.loads(line)


@prop("C06", "model_checking")
def c06(res, tier, seed, replay):
    if replay:
        props.replay_run(res, replay, default_module="SearchTrace", invariants=INV)
        return
    vlib.build_harness()
    design_phase(res, tier)
    results = drive_and_validate(res, plan(tier, seed), module="SearchTrace", cmd="search", invariants=INV)

    tot = {k: 0 for k in COUNTERS}
    shapes = {"requests": 0, "nonempty": 0, "rank_leaves_ge2": 0, "rank_leaves_ge3": 0, "neg_or_zero_weight": 0, "star": 0,
              "nested_select": 0, "sort_keys_ge4": 0, "offset_beyond": 0, "cold": 0}
    for r in results:
        tv = r.get("tv")
        if not tv or not tv["accepted"]:
            continue
        c = counters(tv["raw"])
        if c is None:
            raise Inconclusive(f"trace {r['run']['name']} was accepted but SearchTrace printed no counters")
        for k in COUNTERS:
            tot[k] += c.get(k, 0)
        prev_quiet = False
        with open(r["trace"]) as f:
            for line in f:
                if '"what":"Search"' not in line:
                    prev_quiet = '"what":"reopen"' in line or '"what":"evict"' in line or (prev_quiet and '"ev":"Quiet"' in line)
                    continue
                e = json.loads(line)
                shapes["requests"] += 1
                shapes["nonempty"] += bool(e["hits"])
                shapes["rank_leaves_ge2"] += len(e["hints"]) >= 2
                shapes["rank_leaves_ge3"] += len(e["hints"]) >= 3
                shapes["neg_or_zero_weight"] += ('"w4": -' in json.dumps(e["q"])) or ('"w4": 0' in json.dumps(e["q"]))
                shapes["star"] += any(x["star"] for x in e["sel"])
                shapes["nested_select"] += any(len(x["segs"]) > 1 for x in e["sel"])
                shapes["sort_keys_ge4"] += len(e["sort"]) >= 4
                shapes["offset_beyond"] += (not e["hits"]) and e["off"] > 0
                shapes["cold"] += prev_quiet
    res.coverage["verdicts"] = {k: tot[k] for k in ("judged", "kf", "unjudged")}
    res.coverage["judged_requests_with"] = {"offset>0 and hits": tot["paged"], "sort keys and >=2 hits": tot["sorted"],
                                            "a returned hit summing >=2 contributions": tot["summed"],
                                            "ranked and unranked points in one result": tot["mixed"],
                                            "a ranking cut inside a tie group": tot["tiecut"],
                                            "result larger than the page": tot["multipage"]}
    res.coverage["request_shapes"] = shapes
    res.coverage["robustness_group_select_through_scalar"] = {
        "collision and error 'could not select point data'": tot["rob_collide_err"],
        "collision without error (array index / '*' first / key of a nested map that is absent)": tot["rob_collide_ok"],
        "no colliding point in the result (judged as ordinary request)": tot["rob_free_ok"],
        "error explained only by an ambiguous result set": tot["rob_amb_err"],
        "note": "not part of the verdict except: an error WITHOUT a colliding point in the result set, or a crash, is a violation"}
    if not res.violations:
        if tot["judged"] < 200:
            raise Inconclusive(f"only {tot['judged']} requests were judged (vacuous)")
        for k in ("paged", "sorted", "summed", "mixed", "multipage"):
            if tot[k] == 0:
                raise Inconclusive(f"no judged request exercised '{k}' (vacuous)")
        if tot["unjudged"] * 20 > tot["judged"]:
            raise Inconclusive(f"{tot['unjudged']} of {tot['judged'] + tot['unjudged']} requests could not be judged (tie enumeration too large)")
    for r in results[:3]:
        if os.path.exists(r["trace"]):
            k = 0
            for n, e in search_lines(r["trace"]):
                if len(e["hits"]) >= 2 and len(e["hints"]) >= 2 and any(h["rk"] for h in e["hits"]):
                    e2 = dict(e)
                    e2["hits"] = [{"id": h["id"], "rk": h["rk"], "h": h["h"]} for h in e["hits"]]
                    e2.pop("sel", None)
                    res.sample(summarize_event(json.dumps(e2), 700))
                    k += 1
                    if k >= 2:
                        break

    # ---- binding self-tests: one logged field of an accepted trace corrupted, TLC must reject
    def is_search(e):
        return e.get("ev") == "Quiet" and e.get("what") == "Search"

    def mut_score(e):
        if is_search(e) and not e["sort"]:
            for h in e["hits"]:
                if h["rk"] == 1:
                    h["h"] += 6000
                    # keep the reported sequence ordered so that only the VALUE is wrong
                    e["hits"].sort(key=lambda x: (-x["rk"], -x["h"]))
                    return True
        return False
    binding_selftest(res, results, mut_score, module="SearchTrace", invariants=INV,
                     what="hybrid score of one ranked hit raised by 0.015")

    def mut_swap(e):
        if is_search(e) and not e["sort"] and len(e["hints"]) >= 2:
            hs = e["hits"]
            for k in range(len(hs) - 1):
                if hs[k]["rk"] == 1 and hs[k + 1]["rk"] == 1 and hs[k]["h"] - hs[k + 1]["h"] > 3000:
                    hs[k], hs[k + 1] = hs[k + 1], hs[k]
                    return True
        return False
    binding_selftest(res, results, mut_swap, module="SearchTrace", invariants=INV,
                     what="two ranked hits with different hybrid scores swapped")

    def mut_unranked_first(e):
        if is_search(e) and not e["sort"]:
            hs = e["hits"]
            for k in range(len(hs) - 1):
                if hs[k]["rk"] == 1 and hs[k + 1]["rk"] == 0:
                    hs[k], hs[k + 1] = hs[k + 1], hs[k]
                    return True
        return False
    binding_selftest(res, results, mut_unranked_first, module="SearchTrace", invariants=INV,
                     what="a filter-only point moved in front of a ranked one")

    def mut_drop(e):
        if is_search(e) and len(e["hits"]) >= 2:
            e["hits"] = e["hits"][1:]
            return True
        return False
    binding_selftest(res, results, mut_drop, module="SearchTrace", invariants=INV,
                     what="first hit of a page dropped (page no longer the contiguous slice)")

    def mut_value(e):
        if is_search(e):
            for h in e["hits"]:
                if h["out"]:
                    h["out"][0]["c"] += "X"
                    return True
        return False
    binding_selftest(res, results, mut_value, module="SearchTrace", invariants=INV,
                     what="one selected value altered")

    def mut_extra(e):
        if is_search(e) and e["hits"] and not any(x["star"] for x in e["sel"]):
            e["hits"][0]["out"].append({"segs": ["notselected"], "c": "i1"})
            return True
        return False
    binding_selftest(res, results, mut_extra, module="SearchTrace", invariants=INV,
                     what="a field that was not selected added to a hit")

    def mut_sort(e):
        # a sorted page with >= 2 hits reversed while its first and last hit differ in the first key's presence
        if is_search(e) and len(e["sort"]) == 1 and len(e["hits"]) >= 2:
            key = e["sort"][0]["p"].split(".")
            def has(h):
                return any(x["segs"] == key for x in h["out"])
            if has(e["hits"][0]) and not has(e["hits"][-1]):
                e["hits"].reverse()
                return True
        return False
    binding_selftest(res, results, mut_sort, module="SearchTrace", invariants=INV,
                     what="sorted page reversed so that a hit missing the sort key comes first")

    res.coverage["rule"] = (
        "one request = (query tree, select list, sort list, offset, limit) issued on a real shard after a batch of a random "
        "insert / update / delete history (12, 24 or 30 ids; schemas kitchen, text, flat-euclidean, flat-dot, scalars-ne; shared caches "
        "unlimited / off, sometimes right after a reopen or an eviction; thorough also the memory backend). Trees: depth <= 3, fan-out "
        "1..4, _and / _or, <= 4 ranking leaves (flat vector, text with >= 1 term, graph index with a pre-filter inside its search "
        "window; leaf limits 1,2,3,5,n,n+1,75; weights -2,-1,0,0.5,1,2 or absent; no / id / leaf / tree pre-filter), <= 4 filter "
        "leaves of the operator x boundary-value panel, _id leaves. Select: none, '*', '*' first / last among paths, 1..5 paths from "
        "top-level fields (indexed, extras of mixed types, big strings, never stored) and nested paths below n (present, absent, "
        "never stored). Sort: 0 keys (45%), 1..3 (45%), 4..10 (10%) over indexed integer / float / string properties (top-level and "
        "nested, min/max int64, +-2^53, +-Inf, -0.0, non-ASCII strings) and never-stored keys, ascending / descending. Offset 0 (62%), "
        "1..3, 0..n+2; limit 1..100. TLC recomputes everything from the model state; verdict counters come from TLC")
    res.assumptions += [
        "sort keys are indexed integer / float / string properties (the only values whose order the model knows) or never-stored "
        "paths, and every sort key is covered by the select list (documentation: 'any sort fields must be selected first')",
        "hybrid scores are compared at scale 4e5: vector contributions exactly, text contributions within |weight| * 8e-5, sums within "
        "the float32 rounding of their additions",
        "ties (equal hybrid scores, equal sort keys, equal distances / scores at a leaf's cut, order among filter-only points) are "
        "free; a leaf cut inside a tie group is accepted iff SOME valid top set explains the answer (all are enumerated; beyond 600 "
        "combinations the request is counted unjudged after weaker checks)",
        "select paths that run through a stored scalar or array have no documented meaning: generated only in the robustness group "
        "and classified, not judged",
        "the graph index appears only in its exact regime (pre-filter, id universe inside the search window); text queries that "
        "analyse to zero terms are not generated",
        "a query that is a bare ranking leaf (not composite) is expected in the order of its index (nearest / best first)",
    ]
