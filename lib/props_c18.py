"""C18: no request can crash the server; invalid input is refused without side effects (DESIGN.md 5 C18).

ApiCat.tla (request schemas as field tables, the mutation catalogue, the rules) + Api.tla (design level: the
rules against an ideal and five faulty model servers; TLC writes the catalogue out) + `vh api` (materialises
every catalogue case as JSON / MessagePack bytes against the real handler chain, in process and against a
server child process, plus seeded random bodies) + ApiTrace.tla (TLC judges every logged request)."""
import json
import os
import re
import shutil
import time

import props
import vlib
from props import prop, design_check, expect_design_violation, drive_and_validate, binding_selftest, Inconclusive

props.META["C18"] = dict(
    technique=("the request schemas of both API versions are written down in TLA+ as field tables (ApiCat.tla); TLC enumerates the "
               "mutation catalogue endpoint x field x mutation kind x encoding with a label per case (reject / accept / either / "
               "nonfinite) and model-checks the judging rules against an ideal and five faulty model servers (Api.tla); the Go driver "
               "materialises every case as JSON and MessagePack bytes against the real handler chain (httpapi.RunHTTPServer: recovery, "
               "logging, proxy, white list, app headers, v1 + v2 mux; in process, and a server child process for everything that can "
               "kill a process) together with seeded random bodies and byte-level mutations; before and after each request the digest "
               "of every collection of every user is read back through separate requests; TLC applies the rules to every logged "
               "request (ApiTrace.tla)"),
    design_ref="DESIGN.md 5 C18",
    text=("Every case of the catalogue TLC enumerates from the documented request schemas (about 9 000: missing / null / duplicated / "
          "wrongly typed fields, boundary lengths 0 / 1 / dim-1 / dim+1 / 4096 / 4097 for every vector field of insert, update, search "
          "and filter sub-queries in both API versions, collection ids of 2 / 3 / 24 / 25 (v1: 16 / 17) characters, out-of-range "
          "numbers, NaN / Inf / huge values through MessagePack, reserved property names, deep nesting, header / content type / method / "
          "path / whole-body mutations, plan limits) was sent to the real handler chain and judged by TLC: a request that violates the "
          "schema is answered 4xx with every collection of every user unchanged, a valid one is answered 2xx with exactly its effect "
          "on the addressed collection, an undocumented one is never answered 5xx and changes nothing when refused, and no request "
          "crashes the server or aborts the connection - except for the known findings listed, which are matched by exact signature. "
          "Seeded random byte strings and byte-level mutations of valid bodies are judged by the 'either' rule. Exhaustive for the "
          "catalogue (a finite, explicit set); the space of all byte strings is sampled."),
    note=("trusted: TLC, the labels of ApiCat.tla (a reading of the documentation and of the binding tags of the request structs), the "
          "harness's own JSON / MessagePack encoders and its MessagePack walker (body facts), net/http + httptest; the state digest "
          "reads known point ids, an integer range and the point counts: a change to an unknown id that keeps the count is invisible; "
          "memory disclosure without a crash or a changed answer is not observable; the child server runs under an address-space "
          "limit (12 GiB for the catalogue, 3 GiB for random bodies) so that an attacker-sized allocation fails at once instead of "
          "exhausting the machine, and is replaced when its resident memory exceeds 1.5 GB"))

NEGATIVES = [
    ("Api.leaky.cfg", "Judged", "model server that refuses a mustReject request with 4xx after changing the addressed collection"),
    ("Api.lax.cfg", "Judged", "model server that answers 2xx to a mustReject request"),
    ("Api.fragile.cfg", "Judged", "model server that answers 500 to a valid request"),
    ("Api.bystander.cfg", "Judged", "model server whose valid write also changes another user's collection"),
    ("Api.crashy.cfg", "Judged", "model server that dies on a request the documentation leaves open"),
]


def catalogue_of(r):
    path = os.path.join(vlib.subdir("mc-Api"), "catalogue.ndjson")
    if not os.path.exists(path):
        raise Inconclusive("TLC did not write the catalogue")
    keep = os.path.join(vlib.subdir("c18"), "catalogue.ndjson")
    shutil.copy(path, keep)
    m = re.search(r'<<"CATALOGUE", (\d+), (\d+), (\d+), (\d+), (\d+), (\d+)>>', r["raw"])
    if not m:
        raise Inconclusive("TLC did not report the size of the catalogue")
    n, rej, acc, eit, nf, risky = (int(x) for x in m.groups())
    with open(keep) as f:
        cases = [json.loads(l) for l in f if l.strip()]
    if len(cases) != n:
        raise Inconclusive(f"catalogue file has {len(cases)} lines, TLC reported {n}")
    return keep, cases, dict(cases=n, reject=rej, accept=acc, either=eit, nonfinite=nf, run_in_child=risky)


def plan(tier, seed, cat):
    runs = []
    nin = 8
    for k in range(nin):
        runs.append({"name": f"cat-inproc-{k}", "args": ["-catalogue", cat, "-mode", "inproc", "-risky", 0, "-part", k, "-of", nin, "-seed", seed]})
    nch = 4
    for k in range(nch):
        runs.append({"name": f"cat-child-{k}", "args": ["-catalogue", cat, "-mode", "child", "-aslimit", 12, "-risky", 1, "-part", k, "-of", nch, "-seed", seed],
                     "timeout": 900})
    if tier == "quick":
        nr, per = 2, 1000
    else:
        nr, per = 16, 6250
    for k in range(nr):
        runs.append({"name": f"rand-child-{k}", "args": ["-catalogue", cat, "-mode", "child", "-aslimit", 3, "-risky", 2, "-rand", per, "-part", k, "-of", nr,
                                                          "-seed", seed * 1000 + k], "timeout": 1500, "tlc_timeout": 1500})
    return runs


# ---- corruptions of one logged line (binding self-tests): each must make TLC reject the trace at that line
def _plain(e):
    return e["ev"] == "Case" and e["crashed"] == 0 and e["aborted"] == 0 and e["pre"] == e["post"]


def mut_reject_2xx(e):
    if _plain(e) and e["status"] == 400 and e["k"] in ("type", "missing") and e["p"]:
        e["status"] = 200
        return True
    return False


def mut_reject_changed(e):
    if _plain(e) and e["status"] == 400 and e["k"] == "len" and e["ep"] in ("v2.insert", "v2.search", "v1.insert"):
        e["post"] = [dict(x) for x in e["post"]]
        e["post"][0]["d"] = "0" * 16
        return True
    return False


def mut_accept_500(e):
    if _plain(e) and e["status"] == 200 and e["k"] == "id" and e["ep"] == "v2.search":
        e["status"] = 500
        return True
    return False


def mut_crash(e):
    if _plain(e) and e["status"] == 400 and e["k"] == "hdr":
        e["crashed"] = 1
        return True
    return False


def mut_no_effect(e):
    if e["ev"] == "Case" and e["k"] == "id" and e["ep"] == "v2.insert" and e["var"] == "kitchen" and e["status"] == 200 and e["pre"] != e["post"]:
        e["post"] = e["pre"]
        return True
    return False


def mut_bystander(e):
    if e["ev"] == "Case" and e["k"] == "id" and e["ep"] == "v2.update" and e["var"] == "kitchen" and e["status"] == 200 and e["pre"] != e["post"]:
        e["post"] = [dict(x) for x in e["post"]]
        for x in e["post"]:
            if x["u"] == "bob":
                x["d"] = "f" * 16
        return True
    return False


def mut_descriptor(e):
    if _plain(e) and e["k"] == "num" and e["status"] == 400:
        e["a"] = e["a"] + 1
        return True
    return False


def mut_skip(e):
    # the run claims a later case of its slice: a case was left out
    if e["ev"] == "Case" and e.get("seq", 0) > 5 and e["k"] == "missing":
        e["cid"] = e["cid"] + 1
        return True
    return False


def mut_rand_500(e):
    if e["ev"] == "Rand" and e["status"] == 400 and e["nonfinite"] == 0 and e["ep"] in ("v2.search", "v2.insert"):
        e["status"] = 500
        return True
    return False


SELFTESTS = [
    (mut_reject_2xx, "a mustReject case (wrong type / missing field) answered 2xx", "cat-inproc"),
    (mut_reject_changed, "a refused wrong-length vector after which a collection digest differs", "cat-inproc"),
    (mut_accept_500, "a valid search answered 500", "cat-inproc"),
    (mut_crash, "a header mutation after which the server process is gone", "cat-inproc"),
    (mut_no_effect, "a valid insert answered 200 that left the collection unchanged", "cat-inproc"),
    (mut_bystander, "a valid update after which another user's collection differs", "cat-inproc"),
    (mut_descriptor, "a case materialised with another argument than the catalogue's", "cat-inproc"),
    (mut_skip, "a case of the run's slice left out", "cat-inproc"),
    (mut_rand_500, "a random body answered 500", "rand-child"),
]


def selftests(res, results, kn):
    """Corrupt one line of an accepted trace, keep the prefix up to it: TLC must reject exactly that line."""
    jobs = []
    for k, (mut, what, family) in enumerate(SELFTESTS):
        done = False
        for r in results:
            if not r["run"]["name"].startswith(family) or not (r.get("tv") and r["tv"]["accepted"]):
                continue
            out_lines, idx = [], None
            with open(r["trace"]) as f:
                for i, line in enumerate(f):
                    e = json.loads(line)
                    if idx is None and i > 0 and mut(e):
                        out_lines.append(json.dumps(e) + "\n")
                        idx = i
                        break
                    out_lines.append(line)
            if idx is None:
                continue
            dst = os.path.join(vlib.subdir("traces"), f"selftest{k}-{r['run']['name']}.ndjson")
            with open(dst, "w") as g:
                g.writelines(out_lines)
            jobs.append((k, what, dst, len(out_lines), r["run"]["name"], idx + 1))
            done = True
            break
        if not done and not res.violations:
            raise Inconclusive(f"binding self-test could not run: no accepted trace has a line for '{what}'")

    def one(job):
        k, what, dst, n, name, line = job
        return job, vlib.tlc_trace("ApiTrace", dst, known=kn, name=f"selftest{k}")
    for (k, what, dst, n, name, line), tv in vlib.pmap(one, jobs):
        if tv["accepted"] or tv["matched"] != n - 1:
            raise Inconclusive(f"binding self-test failed: corrupted trace ({what}) accepted={tv['accepted']} matched={tv['matched']}/{n}")
        res.coverage.setdefault("binding_selftests", []).append(f"{what}: corrupted line {line} of {name} rejected")


def describe(line, cases):
    """Readable form of a rejected line for the violation report (the verdict is TLC's)."""
    try:
        e = json.loads(line)
    except Exception:
        return ""
    if e["ev"] == "Case":
        c = cases[e["cid"] - 1] if 0 < e["cid"] <= len(cases) else {}
        what = (f"case {e['cid']} {e['ep']}/{e['var']} field '{e['p']}' mutation {e['k']}({e['a']}, '{e['s']}') as {e['enc']}, label "
                f"{c.get('lab')} / effect {c.get('eff')} on {c.get('u')}/{c.get('col')}")
    elif e["ev"] == "Rand":
        what = (f"random body #{e['i']} ({e['rmode']}, {e['blen']} bytes, sha {e['sha']}, hex '{e.get('hex', '')[:120]}') on the valid "
                f"{e['ep']}/{e['var']} request as {e['enc']}")
    elif e["ev"] == "Reset":
        return f"restoring the reference world failed (ok={e['ok']}, digests equal={e['dig'] == e['ref']})"
    else:
        return ""
    changed = [f"{x['u']}/{x['c']}" for x in e["post"] if x not in e["pre"]] + [f"-{x['u']}/{x['c']}" for x in e["pre"]
                                                                                 if not any(y["u"] == x["u"] and y["c"] == x["c"] for y in e["post"])]
    return (f"{what}: status {e['status']}, crashed={e['crashed']}, aborted={e['aborted']}, hang={e['hang']}, failed parts={e['nfail']}, "
            f"collections changed: {changed or 'none'}, answer '{e['ans'][:120]}' {e['msg'][:160]}")


def annotate(res, cases):
    for k, (d, desc) in enumerate(res.violations):
        try:
            meta = json.load(open(os.path.join(d, "violation.json")))
            tr = [f for f in os.listdir(d) if f.endswith(".ndjson")]
            if not tr or "line" not in meta["meta"]:
                continue
            diag = describe(vlib.read_line(os.path.join(d, tr[0]), meta["meta"]["line"]) or "", cases)
            if diag:
                desc = diag + " -- " + desc
                meta["what"] = desc
                json.dump(meta, open(os.path.join(d, "violation.json"), "w"), indent=1)
                res.violations[k] = (d, desc)
        except Exception:
            pass


@prop("C18", "model_checking")
def c18(res, tier, seed, replay):
    vlib.build_harness()
    # design level: the rules against the ideal server on every case of the catalogue; TLC writes the catalogue out
    r = design_check(res, "Api", "Api.cfg")
    cat, cases, sizes = catalogue_of(r)
    if replay:
        meta = json.load(open(os.path.join(replay, "violation.json")))["meta"]
        args = list(meta["args"])
        if "-catalogue" in args:
            args[args.index("-catalogue") + 1] = cat
        drive_and_validate(res, [{"name": "replay", "args": args, "timeout": 1500}], module="ApiTrace", cmd="api")
        annotate(res, cases)
        return
    res.coverage["catalogue"] = sizes
    res.coverage["catalogue_by_endpoint"] = {}
    for c in cases:
        res.coverage["catalogue_by_endpoint"][c["ep"]] = res.coverage["catalogue_by_endpoint"].get(c["ep"], 0) + 1
    vlib.pmap(lambda n: expect_design_violation(res, "Api", n[0], n[1], n[2]), NEGATIVES)

    # conformance: the real handler chain, judged by TLC
    runs = plan(tier, seed, cat)
    vlib.log(f"design level done after {time.time() - res.t0:.0f}s; {len(runs)} driver runs")
    results = drive_and_validate(res, runs, module="ApiTrace", cmd="api", workers=min(vlib.NCPU, 14))
    vlib.log(f"traces validated after {time.time() - res.t0:.0f}s")
    annotate(res, cases)
    stats = {}
    for x in results:
        if x["rc"] == 0:
            try:
                for k, v in json.loads(x["stdout"].strip().splitlines()[-1]).items():
                    stats[k] = stats.get(k, 0) + v
            except Exception:
                pass
    res.coverage["exercised"] = stats
    res.coverage["evaluations"] = stats.get("cases", 0) + stats.get("rands", 0)
    want_rand = sum(int(x["args"][x["args"].index("-rand") + 1]) for x in runs if "-rand" in x["args"])
    if not res.violations:
        if stats.get("cases", 0) != sizes["cases"]:
            raise Inconclusive(f"the runs executed {stats.get('cases', 0)} catalogue cases, the catalogue has {sizes['cases']}")
        if stats.get("rands", 0) != want_rand:
            raise Inconclusive("fewer random bodies than planned")
        if stats.get("status_2xx", 0) < sizes["accept"] // 2 or stats.get("status_4xx", 0) < sizes["reject"] // 2:
            raise Inconclusive("implausible status distribution (vacuity guard)")
    # what the real server did, per label (reporting; the verdict is TLC's)
    by = {}
    crashes = []
    for x in results:
        if not os.path.exists(x["trace"]):
            continue
        with open(x["trace"]) as f:
            for line in f:
                if '"ev":"Case"' not in line and '"ev":"Rand"' not in line:
                    continue
                try:
                    e = json.loads(line)
                except ValueError:
                    continue   # (a line cut short by a driver that died: reporting only, the verdict is TLC's)
                if e["ev"] == "Case":
                    lab = cases[e["cid"] - 1]["lab"]
                elif e["ev"] == "Rand":
                    lab = "random-nonfinite" if e["nonfinite"] else "random"
                else:
                    continue
                key = f"{lab}:{e['status'] // 100}xx" if e["status"] else f"{lab}:no-answer"
                by[key] = by.get(key, 0) + 1
                if e["crashed"] or e["hang"]:
                    crashes.append(describe(line, cases)[:400])
    res.coverage["answers_by_label"] = dict(sorted(by.items()))
    if crashes:
        res.coverage["server_deaths_observed"] = {"count": len(crashes), "first": crashes[:6]}
    # samples
    want = {"reject": 2, "accept": 2, "either": 1, "nonfinite": 1}
    for x in results:
        if not os.path.exists(x["trace"]) or not any(want.values()):
            continue
        with open(x["trace"]) as f:
            for n, line in enumerate(f):
                if n > 400 or not any(want.values()):
                    break
                e = json.loads(line)
                if e["ev"] != "Case":
                    continue
                c = cases[e["cid"] - 1]
                if want.get(c["lab"], 0) > 0 and e["k"] not in ("id",):
                    want[c["lab"]] -= 1
                    res.sample({"case": {k: c[k] for k in ("cid", "ep", "var", "p", "k", "a", "s", "enc", "lab", "eff")},
                                "status": e["status"], "crashed": e["crashed"], "state_unchanged": e["pre"] == e["post"],
                                "answer": e["ans"][:100]}, cap=8)
    # binding self-tests
    kn = list(props.known_names(res.pid).keys())
    binding_selftest(res, [x for x in results if x["run"]["name"].startswith("cat-inproc")] or results, mut_reject_2xx, module="ApiTrace",
                     what="a mustReject case answered 2xx (whole trace)")
    selftests(res, results, kn)
    res.coverage["rule"] = (
        "a case = (base request, field, mutation kind, argument, encoding) of the catalogue TLC enumerates from the field tables of "
        "ApiCat.tla: 9 endpoints x 2 API versions, 60 valid base requests against a seeded reference world (4 users / 2 plans / 8 "
        "collections: vectorVamana 1 / 4 / 8 dims, vectorFlat 2 / 3 / 16 / 4096 dims, binary and product quantisers, haversine, text, string, "
        "integer, float, stringArray, a nested property, collections created through v1 and through v2); per field: missing, null, "
        "duplicate key (same / wrong value first / last), every wrong JSON type, and per type boundary values (lengths 0 / 1 / dim-1 / dim / "
        "dim+1 / 2000 / 2001 / 4096 / 4097, numbers lo-1 / lo / hi / hi+1 / -1 / 0 / 2^63-1 / 2^63 / -2^63 / 1e30 / 1.5 / 1E400, NaN / +-Inf as "
        "float64 and float32, uint64, MessagePack integer widths, enum values of other types / unknown / upper case / empty, uuid "
        "forms, id lengths and alphabets, list lengths 0 / 1 / max / max+1, reserved and odd property names, select / sort paths, nesting "
        "100 / 9000 / 20000 / 10^5 / 10^6 / 3*10^6); per base: headers, content type, method, path, collection id and whole-body shapes "
        "(empty, null, scalars, truncated, trailing bytes, BOM, 32 MiB, nesting, MessagePack length headers of 2^32-1). Every case is "
        "sent once as JSON and once as MessagePack where applicable. TLC looks each logged case up in the catalogue, checks the "
        "descriptor and that the run executed its slice completely and in order, and applies: reject => 4xx and every digest equal; "
        "accept => 2xx and the effect (none / target changes / collection appears / disappears, nothing else changes); either => no "
        "5xx, refusal leaves everything equal, acceptance touches at most the target; nonfinite => anything but a crash, damage "
        "bounded; always: no crash, no aborted connection, a status code. Random bodies (raw bytes, structural token soup, splices "
        "and 1-4 byte-level edits of the 70 valid bodies) are judged by the either rule (nonfinite when the body carries a non-finite "
        "or extreme float). evaluations = catalogue cases + random bodies, each distinct by construction except random duplicates")
    res.assumptions += [
        "labels are a reading of the documentation and of the `binding` tags of the request structs; where neither says anything "
        "(null elements, unknown fields, duplicate keys, odd uuid spellings, beyond-int64 values in unbounded fields, reserved names) "
        "the case is labelled `either`",
        "mustAccept demands 2xx, except for MessagePack numbers sent in another wire width than the Go field (float64 for float32, "
        "int8/16 for an integer field): the pinned code refuses those with 400 and changes nothing, which the property allows, so "
        "they are judged by the either rule (first reported as a finding: a false alarm of the check, corrected)",
        "the digest of a collection = GET collection (shard ids blanked) + the points with known ids + an integer range read; the "
        "reference world is restored (collections re-created and re-seeded) after every request that changed it, and TLC checks "
        "that the restored digests equal the reference",
        "requests with NaN / Inf / |x| > 1e15 floats are outside the no-5xx clause (the property judges valid requests only while "
        "distances stay finite); crashes are still judged",
        "process death is judged on a server child process (address space limited to 12 GiB / 3 GiB); in-process runs execute only cases the catalogue "
        "does not mark as risky: a death there ends the run and is reported as a violation by the framework",
    ]
