#!/bin/bash
# seed_detect_par.sh <seed-dir> <tier> <check ids...>: like seed_detect.sh, but without touching /repo:
# the seeded change is applied to a scratch worktree, the harness is built against it (copy of
# /verif/harness with the replace directive pointing at the worktree) and handed to ./check through
# VERIF_VH.  Several of these can run side by side (development aid; the evidence of
# such runs goes to a scratch directory).
SD=$1; TIER=$2; shift 2
export GOFLAGS=-mod=mod GOPROXY=off GOSUMDB=off GOTOOLCHAIN=local CGO_ENABLED=0
GO=/root/go/pkg/mod/golang.org/toolchain@v0.0.1-go1.24.3.linux-amd64/bin/go
WT=$(mktemp -d /tmp/wtp-XXXX); HD=$(mktemp -d /tmp/hdp-XXXX)
git -C /repo worktree add -q --detach "$WT" HEAD || exit 2
trap 'git -C /repo worktree remove --force "$WT" >/dev/null 2>&1; rm -rf "$HD"' EXIT
git -C "$WT" apply "$SD/patch.diff" || { echo "apply failed"; exit 2; }
cp -r /verif/harness/. "$HD/" && cp "$WT/go.sum" "$HD/go.sum" && sed -i "s#=> /repo#=> $WT#" "$HD/go.mod"
(cd "$HD" && $GO build -tags verif -o "$HD/vh" ./cmd/vh) || { echo "build failed"; exit 2; }
TAG=$(basename $(dirname "$SD"))-$(basename "$SD")
for P in "$@"; do
  L=/tmp/seed-detect-$TAG-$P.log
  mkdir -p "$HD/evidence"
  cd /verif && VERIF_VH="$HD/vh" VERIF_EVIDENCE_DIR="$HD/evidence" timeout 3000 ./check $P --tier $TIER > $L 2>&1; RC=$?
  echo "seed=$TAG check=$P tier=$TIER rc=$RC $(grep -c '^VIOLATION' $L) violation(s)"
  grep -A1 "^VIOLATION\|^INCONCLUSIVE" $L | cut -c1-300 | head -4
done
