"""C16: tenants are isolated from each other.

Design: spec/Tenancy.tla (node database as a flat key space of character strings user ++ "/" ++ collection with
prefix scans, shard directories user/col/shard with recursive deletion, every ordered pair of user ids over a tiny
alphabet; invariants Isolation / Conforms; five negative configurations).  Conformance: `vh tenancy` runs the real
HTTP handler chain over an in-process node with two users and logs what BOTH can observe after every request;
spec/TenancyTrace.tla (TLC) judges every line."""
import json
import os
import re
from concurrent.futures import ThreadPoolExecutor

import props
import vlib
from props import (prop, design_check, expect_design_violation, drive_and_validate, binding_selftest,
                   replay_run, summarize_event, Inconclusive)

props.META["C16"] = dict(
    technique=("TLA+ design spec of the node database key space and the shard directory tree shared by two tenants (Tenancy.tla), "
               "model-checked for every ordered pair of user ids over a small alphabet; TLC trace validation (TenancyTrace.tla) of "
               "interleaved and concurrent two-user histories run through the real HTTP handler chain, with both users' complete "
               "observable state logged after every request"),
    design_ref="DESIGN.md 5 C16",
    text=("TLC explores all create / delete-collection / insert / delete-point steps of two users for every ordered pair of distinct "
          "ids over {a,b} of length 1..2 (thorough: 1..3) and collection names of length 1..2 on a model of the flat key space "
          "user ++ '/' ++ collection (exact-key get / put / delete, prefix scans for list and quota) and of the directory tree "
          "user/collection/shard (recursive deletion, shards recreated empty); in every reachable state everything a user can read "
          "equals the user's own independent reference model and no step changes what the other user can read; ids containing '/', "
          "the ids '.' / '..', scans without the delimiter, directories without the user component and a bucket-wide quota are refuted "
          "as negative configurations. On the real code, histories of two users (ids that are prefixes of one another or of "
          "user+collection concatenations, ids with . - _ @ blank % backslash, equal collection names and point ids, names at the "
          "length limits of v1 and v2, small collection and point quotas, one or several shards per collection, forced shard unloads, "
          "a concurrent phase) go through the real middleware and v1 / v2 handlers; after every request TLC requires the other "
          "user's logged state (list, get of every name, per-shard counts, select-* read of all point ids) to be identical to the one "
          "before and the requester's state and status class to follow the per-user model. Model checking of the design plus "
          "conformance of sampled histories; not a proof for all ids and interleavings."),
    note=("trusted: TLC and its Json module; the harness' tables name <-> index and uuid <-> index; the v2 list / get / _id search "
          "endpoints as observers (v1 list / get in addition in mixed histories); one server (user and shard routing by rendezvous "
          "hashing is C13); shards are unloaded through the idle-timer hook of the verif build; known finding dot-userid (user ids "
          "'.' and '..') is excused by signature only in histories with such an id"))

COV_ISO = re.compile(r'<<\s*"COV",\s*(\d+),', re.S)
COV_KEY = re.compile(r'"([a-z0-9]+(?::[a-z0-9]+)?)" :> (\d+)')
NEEDED = ("create:ok", "create:exists", "create:quota", "create:invalid", "insert:ok", "insert:quota", "insert:notfound",
          "delcol:ok", "delcol:notfound", "update:ok", "delpts:ok", "search:ok", "get:ok", "get:notfound", "list:ok",
          "badhdr:invalid", "unload", "concurrent")


def cover(raw):
    m = COV_ISO.search(raw or "")
    if not m:
        return None
    tail = raw[m.start():]
    return int(m.group(1)), {k: int(v) for k, v in COV_KEY.findall(tail)}


# ---- corruptions of accepted traces (binding self-tests); each keeps the line well formed

class Mut:
    """Stateful corruption: follows the Hist lines so that only histories without a '.' / '..' user are touched."""

    def __init__(self, fn):
        self.fn, self.dot, self.done = fn, 1, False

    def __call__(self, e):
        if e["ev"] == "Hist":
            self.dot = e["dot"]
            return False
        if self.dot:
            return False
        return self.fn(e)


def _other(e):
    return e["obs"][2 - e["u"]]        # obs is [user 1, user 2]; the other one of u


def _mut_other_value(e):
    # a stored value of the user who did NOT act differs after the request
    if e["ev"] == "Req":
        for c in _other(e)["cols"]:
            if c["pts"]:
                c["pts"][0]["v"] += 1
                c["pts"][0]["w"] += 1
                return True
    return False


def _mut_other_list(e):
    # the user who did not act suddenly lists (and can get) one more collection: a leaked entry
    if e["ev"] == "Req" and e["op"] == "create" and e["cls"] == "ok":
        o = _other(e)
        for c in o["cols"]:
            if c["c"] == e["c"] and c["code"] == 404:
                c["code"], c["sc"] = 200, 200
                if c["code1"] == 404:
                    c["code1"] = 200
                o["list"] = sorted(o["list"] + [e["c"]])
                if o["lc1"] == 200:
                    o["list1"] = list(o["list"])
                return True
    return False


def _mut_other_lost(e):
    # after an unload the points of one user are gone
    if e["ev"] == "Unload":
        for o in e["obs"]:
            for c in o["cols"]:
                if c["pts"]:
                    c["pts"] = []
                    c["k"] = [0] * len(c["k"])
                    if c["k1"]:
                        c["k1"] = list(c["k"])
                    return True
    return False


def _mut_quota_foreign(e):
    # a creation refused for quota although the user's OWN collections leave room (as if foreign ones were counted)
    if e["ev"] == "Req" and e["op"] == "create" and e["cls"] == "quota":
        e["maxCols"] += 5
        return True
    return False


def _mut_quota_points(e):
    if e["ev"] == "Req" and e["op"] == "insert" and e["cls"] == "quota":
        e["maxPts"] += 10
        return True
    return False


def _mut_own_lost(e):
    # a point of an accepted insert is missing from the requester's own state
    if e["ev"] == "Req" and e["op"] == "insert" and e["cls"] == "ok" and e["resp"].get("failed") == 0:
        for c in e["obs"][e["u"] - 1]["cols"]:
            if c["c"] == e["c"] and c["pts"] and c["k"]:
                gone = c["pts"].pop()
                for i, k in enumerate(c["k"]):
                    if k > 0:
                        c["k"][i] -= 1
                        break
                if c["k1"]:
                    c["k1"] = list(c["k"])
                return gone["i"] in [p["i"] for p in e["pts"]] or True
    return False


def _mut_notfound(e):
    # a get of a collection the user does not own answers 200
    if e["ev"] == "Req" and e["op"] == "get" and e["cls"] == "notfound":
        e["cls"], e["code"] = "ok", 200
        e["resp"]["k"] = []
        return True
    return False


def _mut_search_foreign(e):
    # a search answer carries a point the user does not own
    if e["ev"] == "Req" and e["op"] == "search" and e["api"] == "v2" and e["cls"] == "ok":
        have = {p["i"] for p in e["resp"]["pts"]}
        for p in e["pts"]:
            if p["i"] not in have:
                e["resp"]["pts"] = sorted(e["resp"]["pts"] + [{"i": p["i"], "v": 7, "w": 7}], key=lambda x: x["i"])
                return True
    return False


def _mut_conc(e):
    # in the concurrent phase a user's own value changes without a request of that user explaining it
    if e["ev"] == "CReq" and e["op"] in ("get", "list", "search") and e["cls"] == "ok":
        for c in e["o"]["cols"]:
            if c["pts"]:
                c["pts"][0]["v"] += 1
                c["pts"][0]["w"] += 1
                return True
    return False


def _selftest(res, results, mutate, what, tag):
    """binding_selftest with its own file names (several run side by side)."""
    kn = props.known_names(res.pid)
    for r in results:
        if r.get("tv") and r["tv"]["accepted"]:
            dst = os.path.join(vlib.subdir("traces"), f"selftest-{tag}-{r['run']['name']}.ndjson")
            if not props.corrupt_trace(r["trace"], dst, mutate):
                continue
            tv = vlib.tlc_trace("TenancyTrace", dst, known=kn.keys(), name="selftest-" + tag)
            if tv["accepted"]:
                raise Inconclusive(f"binding self-test failed: corrupted trace ({what}) was accepted")
            return f"{what}: corrupted copy of {r['run']['name']} rejected at line {tv['matched'] + 1}"
    if res.violations:
        return None
    raise Inconclusive(f"binding self-test could not run ({what}): no accepted trace with an applicable line")


def _brief(o):
    """list and, per existing collection, shard counts and points of one logged observation."""
    cols = {c["c"]: {"k": c["k"], "pts": {p["i"]: p["v"] for p in c["pts"]}} for c in o["cols"] if c["code"] != 404}
    return f"list {o['list']} (status {o['lc']}) collections {cols}"


def _describe(res, results, nviol):
    """Name the user pair and the kind of departure in the violation records (descriptive only)."""
    failing = [r for r in results if r["rc"] != 0 or (r.get("tv") and not r["tv"]["accepted"])]
    for r, idx in zip(failing, range(nviol, len(res.violations))):
        if r["rc"] != 0:
            continue
        d, desc = res.violations[idx]
        n = r["tv"]["matched"] + 1
        users, prev, cur = None, None, None
        try:
            with open(r["trace"]) as f:
                for i, line in enumerate(f, 1):
                    if i > n:
                        break
                    e = json.loads(line)
                    if e["ev"] == "Hist":
                        users = e["users"]
                    if i == n:
                        cur = e
                    elif "obs" in e:
                        prev = e
        except (OSError, ValueError):
            continue
        extra = f" [users {users}]"
        if cur and prev and "obs" in cur:
            who = [x for x in (1, 2) if cur.get("u") != x and cur["obs"][x - 1] != prev["obs"][x - 1]]
            req = (f"request of user {cur.get('u')}: {cur.get('api', '')} {cur.get('op')} name {cur.get('c')} batch {cur.get('pts')} "
                   f"-> {cur.get('code')}") if cur["ev"] == "Req" else cur["ev"]
            if who:
                extra += f" [isolation: {req}; the logged state of user {who} (who did not act) changed: "
                extra += "; ".join(f"user {x}: {_brief(prev['obs'][x - 1])} => {_brief(cur['obs'][x - 1])}" for x in who) + "]"
            else:
                extra += (f" [the requester's own outcome / state departs from the per-user model: {req}, quotas "
                          f"{cur.get('maxCols')} collections / {cur.get('maxPts')} points; own state "
                          f"{_brief(prev['obs'][cur['u'] - 1]) if cur.get('u') else ''} => "
                          f"{_brief(cur['obs'][cur['u'] - 1]) if cur.get('u') else ''}]")
        elif cur and cur["ev"] == "CReq":
            extra += (f" [concurrent phase: {cur.get('api')} {cur.get('op')} name {cur.get('c')} of user {cur.get('u')} -> {cur.get('code')}: "
                      f"own state afterwards {_brief(cur['o'])} does not follow the user's sequential model]")
        desc = re.sub(r": \{.*$", "", desc, flags=re.S)      # the full line is in the replay directory
        res.violations[idx] = (d, desc + extra)
        try:
            vj = os.path.join(d, "violation.json")
            v = json.load(open(vj))
            v["what"] = desc + extra
            json.dump(v, open(vj, "w"), indent=1)
        except OSError:
            pass


@prop("C16", "model_checking")
def c16(res, tier, seed, replay):
    if replay:
        replay_run(res, replay, default_module="TenancyTrace")
        return
    # ---- design level (runs beside the drivers; joined below)
    cfgs = ["Tenancy.cfg", "Tenancy.dots.cfg"] if tier == "quick" else ["Tenancy.deep.cfg", "Tenancy.pts.cfg", "Tenancy.dots.cfg"]
    negs = [("Tenancy.delim.cfg", "user ids that may contain '/' (the stated assumption dropped): two users share a key"),
            ("Tenancy.dotid.cfg", "the user id '.' admitted: its collection directory is another user's directory"),
            ("Tenancy.noscandelim.cfg", "list / quota prefix scan without the '/' delimiter (user a scans the keys of user ab)"),
            ("Tenancy.dirnouser.cfg", "shard directory path without the user id"),
            ("Tenancy.quotaall.cfg", "collection quota counted over the keys of all users")]
    vlib.build_harness()
    pool = ThreadPoolExecutor(max_workers=4)
    design = [pool.submit(design_check, res, "Tenancy", c, None, 3000) for c in cfgs]
    design += [pool.submit(expect_design_violation, res, "Tenancy", n[0], "Isolation", n[1]) for n in negs]

    # ---- the real handler chain
    if tier == "quick":
        nproc, hists, steps, conc = 4, 8, 45, 12
    else:
        nproc, hists, steps, conc = 16, 15, 150, 40
    runs = []
    for i in range(nproc):
        runs.append({"name": f"tenancy-{i}", "timeout": 1200, "tlc_timeout": 1500,
                     "args": ["-seed", seed * 100 + i, "-hist", hists, "-steps", steps, "-conc", conc,
                              "-first", seed * 3 + i * hists, "-pairs", "all"]})
    # the pairs in which one id is a file-name pattern matching the other (catalogue entries 4..7), whatever the seed selects above
    runs.append({"name": "tenancy-patterns", "timeout": 1200, "tlc_timeout": 1500,
                 "args": ["-seed", seed * 100 + 77, "-hist", 4, "-steps", steps, "-conc", conc, "-first", 4, "-pairs", "normal"]})
    nviol = len(res.violations)
    results = drive_and_validate(res, runs, module="TenancyTrace", cmd="tenancy", workers=min(vlib.NCPU, 8))
    _describe(res, results, nviol)
    for f in design:
        f.result()          # Inconclusive from a design run surfaces here
    pool.shutdown()
    res.coverage["design_runs"].sort(key=lambda d: d["cfg"])
    res.coverage["design_selftests"].sort()

    # ---- coverage (from what TLC counted while validating, and from the drivers' statistics)
    iso, ops, pairs, http = 0, {}, set(), 0
    for r in results:
        if r["rc"] == 0:
            try:
                st = json.loads(r["stdout"].strip().splitlines()[-1])
                pairs |= set(st["pairs"])
                http += st["http_calls"]
            except (ValueError, KeyError, IndexError):
                raise Inconclusive("tenancy driver printed no statistics: " + r["stdout"][-300:])
        tv = r.get("tv")
        if tv and tv["accepted"]:
            c = cover(tv["raw"])
            if c is None:
                raise Inconclusive("TenancyTrace accepted a trace without reporting coverage")
            iso += c[0]
            for k, v in c[1].items():
                ops[k] = ops.get(k, 0) + v
    res.coverage["other_user_state_comparisons"] = iso
    res.coverage["requests_by_op_and_class"] = dict(sorted(ops.items()))
    if ops.get("unjudged"):
        res.notes.append(f"{ops['unjudged']} lines of histories with a user id '.' / '..' that follow the first excused occurrence "
                         "of known finding dot-userid were accepted unjudged (the victim's files are gone behind the shard manager's back)")
    res.coverage["user_pairs"] = sorted(pairs)
    res.coverage["http_calls_through_the_real_chain"] = http
    if not res.violations:
        missing = [k for k in NEEDED if ops.get(k, 0) == 0]
        if missing or iso == 0:
            raise Inconclusive(f"vacuous: never exercised {missing} (other-user comparisons: {iso})")
        if "dot-userid" in props.known_names("C16") and "dot-userid" not in res.known:
            res.notes.append("known finding dot-userid is listed but its signature was not met in this run")
    for r in results[:1]:
        props.sample_from_trace(res, r["trace"], ("Hist",), cap=1)
        props.sample_from_trace(res, r["trace"], ("Req",), cap=2)

    # ---- binding self-tests: corrupted copies of accepted traces must be refused
    tests = [(_mut_other_value, "a stored value of the user who did not act differs after the request"),
             (_mut_other_list, "the user who did not act lists one more collection after the other user's creation"),
             (_mut_other_lost, "the points of a collection are gone after an unload"),
             (_mut_quota_foreign, "creation refused for quota although the user's own collections leave room"),
             (_mut_quota_points, "insert refused for quota although the collection's own points leave room"),
             (_mut_own_lost, "a point of an accepted insert missing from the requester's own state"),
             (_mut_notfound, "get of a collection the user does not own answered 200"),
             (_mut_search_foreign, "search answer carrying a point the user does not own"),
             (_mut_conc, "concurrent phase: a user's own value changes without a request of that user")]

    done = vlib.pmap(lambda it: _selftest(res, results, Mut(it[1][0]), it[1][1], f"st{it[0]}"), list(enumerate(tests)), workers=5)
    res.coverage["binding_selftests"] = [d for d in done if d]

    # the excuse of the known finding is tied to its name: without it the same trace is refused
    kn = props.known_names("C16")
    if "dot-userid" in kn and "dot-userid" in res.known:
        for r in results:
            if r.get("tv") and r["tv"]["accepted"] and "dot-userid" in r["tv"]["kf"]:
                tv = vlib.tlc_trace("TenancyTrace", r["trace"], known=(), name="selftest-nokf")
                if tv["accepted"]:
                    raise Inconclusive("self-test failed: the dot-userid signature was accepted without the known-finding name")
                line = vlib.read_line(r["trace"], tv["matched"] + 1) or "{}"
                try:
                    ev = json.loads(line).get("ev")
                except ValueError:
                    ev = "?"
                res.coverage["binding_selftests"].append(
                    f"known finding not listed: trace {r['run']['name']} refused at line {tv['matched'] + 1} ({ev})")
                break

    res.coverage["rule"] = ("per history a fresh single-server node, two users from a catalogue of 29 id pairs (a/ab, u1/u10, abc/abcdef, "
                            "ids with . - _ @ blank % backslash :, upper/lower case, an id equal to a collection name, uuid-like ids differing "
                            "in the last character, '.' and '..'), 15 collection names shared by both users (3 / 16 / 17 / 24 / 25 "
                            "characters, upper case, non-alphanumeric, escaped '/', '..'), 6 point ids shared by both users, plans with "
                            "2..3 collections and 2..4 points per collection, one or several shards per collection, API v2 only or v1 and "
                            "v2 mixed; a scripted prologue (equal names, equal point ids, coincidence names, deletions, unload) followed by "
                            "random requests (create, delete, insert, update, delete points, search, get, list, requests without valid "
                            "headers, plan switches), a forced unload of all shards every 17 requests and a concurrent phase; after EVERY "
                            "request both users' list / get of every name / per-shard counts / select-* read of all ids are logged and "
                            "compared by TLC")
    res.assumptions += ["user ids contain no '/' (stated by the property); ids '.' and '..' are reported as known finding dot-userid",
                        "an insert batch naming an id twice or an id the collection already holds is judged only for "
                        "'no other collection changes, stored points stay, new points come from the batch' (only sent to "
                        "single-shard collections: point ids are unique per shard only)",
                        "v1 search answers (approximate index) are required to be a subset of the user's own points",
                        "a forced unload of all shards (environment step) must leave both users' observations unchanged",
                        "in the concurrent phase each user's requests and observations are sequential; isolation is judged there "
                        "as 'each user's own history follows the sequential per-user model'"]
