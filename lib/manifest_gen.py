#!/usr/bin/env python3
"""Regenerates /verif/MANIFEST.json from the per-property metadata below."""
import json
import os
import sys

sys.path.insert(0, os.path.dirname(os.path.abspath(__file__)))
import props  # noqa: E402

VERIF = os.path.dirname(os.path.dirname(os.path.abspath(__file__)))

META = {
    "C01": dict(
        technique="TLA+ reference model (Shard.tla/Docs.tla) + TLC trace validation of real shard histories",
        design_ref="DESIGN.md 5 C01",
        text=("TLC exhaustively checks the id-bookkeeping invariants of Shard.tla on small constants, and every API "
              "result, the persisted node-id table / free list / counters and a select-* read of all ids after every "
              "batch of randomised histories on real shards are validated line by line against the TLA+ reference "
              "model (TLC is the oracle). Model checking of the design plus conformance of sampled executions; not a proof "
              "for all histories. Concurrent insert requests sharing an id and concurrent write requests on disjoint ids "
              "are judged against every order (InsertRace / WriteRace); the persisted inverted indexes, vector keys and text "
              "index are judged as functions of the stored documents after every batch (TInvIx, TVecKeys, TTextIx)."),
        note=("trusted: TLC, bbolt, msgpack, the harness' canonicaliser; histories are sampled (12 ids incl. the all-zero and "
              "all-ones UUID, batches <= 6); update batches repeat an id only on configurations without text / graph indexes")),
    "C02": dict(
        technique="TLA+ filter semantics (Docs.tla EvalQ) as oracle + TLC trace validation of a full operator x boundary-value panel",
        design_ref="DESIGN.md 5 C02",
        text=("The filter semantics is a TLA+ operator checked for algebraic sanity on all small assignments (FilterMC); on "
              "real shards the complete operator x boundary-value panel and random _and/_or trees are evaluated after "
              "histories that change/add/remove the indexed fields, and TLC recomputes each answer from the model state; "
              "3000 composite filters of 16..64 leaves end every history, and the persisted index buckets are compared with "
              "what the stored documents determine (TInvIx)."),
        note="trusted: Go stdlib for the pool relations (ToLower, bytes.Compare, HasPrefix); queries limited to those passing validation"),
}

META.update({
    "C03": dict(
        technique="TLA+ kNN/soundness predicates (Docs.tla HitsSound/HitsExact) as oracle + TLC trace validation of graph searches",
        design_ref="DESIGN.md 5 C03",
        text=("RankMC shows the ranking predicates are satisfiable and pin the answer up to ties on all small inputs; every "
              "graph search issued after randomised histories on real shards is validated by TLC: soundness always, exactness in "
              "the regimes where the property claims it."),
        note="trusted: TLC, integer-valued vectors (exact float32 arithmetic), harness' float64 haversine reference"),
    "C04": dict(
        technique="TLA+ exact-kNN predicate (Docs.tla HitsExact) as oracle + TLC trace validation warm / evicted / cold",
        design_ref="DESIGN.md 5 C04",
        text=("Every flat search answer (warm, after eviction, cold on a copy of the file) is checked by TLC to be the exact "
              "k nearest neighbours within the filter with the metric's distances, for all six metrics."),
        note=("trusted: TLC, integer-valued vectors; with a trained product / learned-binary quantiser the quantised distance is "
              "not recomputed: warm, cold and concurrent answers are compared with each other (FlatPair, FlatBurst) and the "
              "key-level life cycle of the store is model-checked (Quant.tla) and judged on bucket dumps (TVecKeys)")),
    "C05": dict(
        technique="TLA+ tf-idf model in scaled integers (Docs.tla TextOK) + TLC trace validation",
        design_ref="DESIGN.md 5 C05",
        text=("TLC recomputes match sets, corpus size, document frequencies and tf-idf scores from the model state for every "
              "text query issued after histories that insert / rewrite / blank / delete text fields, and checks order and cut; "
              "the persisted index (corpus size, document entries, term sets) is compared with what the stored documents determine "
              "after every batch (TTextIx)."),
        note="trusted: bleve's standard analyser (called directly by the harness), log10 table from Go's math library"),
    "C10": dict(
        technique="TLA+ well-formedness invariants (ShardTrace.tla TGraph, Shard.tla ShardWF) evaluated by TLC on persisted-state dumps after every batch",
        design_ref="DESIGN.md 5 C10",
        text=("After every write batch of randomised histories the persisted graph and id bookkeeping are dumped (hook H1) and "
              "TLC evaluates the well-formedness invariants on every trace line; the id allocator design is model-checked exhaustively."),
        note="trusted: the repo's key-layout helpers (conversion.NodeIdFromKey etc.) used to decode the dump"),
})

META["C12"] = dict(
    technique="TLA+ protocol spec (ShardMgr.tla) model-checked exhaustively; TLC-generated behaviours forced on the real shard manager; events validated by a TLA+ monitor (MgrMonitor.tla)",
    design_ref="DESIGN.md 5 C12",
    text=("Exhaustive TLC check of the load / idle-unload / delete protocol (all interleavings of 3 requests, the timer and 2 "
          "deletions: safety, deadlock freedom, liveness), bound to the code by replaying TLC behaviours through build-tag-guarded "
          "yield points and validating the observed events with TLC."),
    note="trusted: the scheduler's goroutine-dump based deadlock confirmation; bbolt file locking; single shard directory")

META["C07"] = dict(
    technique="TLA+ pipeline/transaction spec (WriteTxn.tla) model-checked; fault and kill-point enumeration on the real shard through a storage proxy, traces validated by TLC against Shard.tla (Fork / Fault / Crash / Restore)",
    design_ref="DESIGN.md 5 C07",
    text=("Every sampled (thorough: every) fallible storage operation of every batch is made to fail, the commit is refused, and the "
          "process is killed at operation k / before / after commit; warm and reopened answers are validated by TLC as all-or-nothing "
          "against the reference model. The design of the stage / transaction protocol is model-checked, including the pinned "
          "early-return defect as a negative configuration."),
    note="trusted: bbolt's own commit atomicity; Bucket.Get cannot be made to fail (interface has no error); op numbering under concurrency is schedule dependent")

NOT_APPLICABLE = {}


def main():
    META.update(props.META)
    checks = []
    for pid in sorted(props.REGISTRY):
        fn, level = props.REGISTRY[pid]
        m = META[pid]
        checks.append({
            "property_id": pid,
            "quick_cmd": f"./check {pid} --tier quick",
            "thorough_cmd": f"./check {pid} --tier thorough",
            "evidence_file": f"/verif/evidence/{pid}.json",
            "replay_cmd_template": f"./check {pid} --replay {{path}}",
            "engine": "tla-trace",
            "level_claimed": {"category": level, "text": m["text"], "design_ref": m["design_ref"]},
            "level_note": m["note"],
            "technique": m["technique"],
        })
    all_ids = [json.loads(l)["id"] for l in open(os.path.join(VERIF, "properties.jsonl"))]
    na = []
    for pid in all_ids:
        if pid not in props.REGISTRY:
            na.append({"property_id": pid,
                       "reason": NOT_APPLICABLE.get(pid, "not yet claimed: the check for this property is still being built "
                                                         "(see DESIGN.md section 5 for the planned decision procedure)")})
    man = {
        "version": 1,
        "setup_cmd": "./setup.sh",
        "hooks": {
            "guard": "verif",
            "enable": "go build -tags verif (the harness module /verif/harness replaces github.com/semafind/semadb with /repo)",
            "baseline_off_cmd": "cd /repo && GOFLAGS=-mod=mod GOPROXY=off go test -json -vet=off -count=1 -timeout 25m ./...",
            "source_commits": HOOK_COMMITS,
            "add_only": True,
        },
        "engines": [
            {"name": "tla-trace", "path": "/verif/check", "serves_properties": sorted(props.REGISTRY),
             "kind_free_text": "explicit TLA+ specifications (spec/*.tla) checked with TLC; Go harness (harness/) drives the real "
                               "packages and records ndjson traces; TLC validates traces against *Trace.tla specs that reuse the "
                               "design actions; TLC-generated behaviours are replayed into the code for schedule properties"},
        ],
        "checks": checks,
        "not_applicable": na,
        "notes": "Repairs of genuine defects are 'fix:' commits in /repo listed in known_findings.jsonl (fixed entries); "
                 "unrepaired defects are 'finding' entries matched by signature in the trace specifications.",
    }
    with open(os.path.join(VERIF, "MANIFEST.json"), "w") as f:
        json.dump(man, f, indent=1)
    print("MANIFEST.json written:", len(checks), "checks,", len(na), "not claimed")


HOOK_COMMITS = ["d99ec3b", "25e3dcc", "8003572", "c454b84", "cc39578", "d991728", "db5df73", "6698297"]

if __name__ == "__main__":
    main()
