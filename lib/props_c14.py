"""C14: start-up rebalancing (Sync.tla design + real node processes with injected faults validated by SyncTrace.tla)."""
import json
import os

import props
import vlib
from props import prop, design_check, expect_design_violation, drive_and_validate, binding_selftest, replay_run, summarize_event
from vlib import Inconclusive

props.META["C14"] = dict(
    technique="TLA+ transfer protocol (Sync.tla) model-checked incl. liveness with a crash budget; fault enumeration (hook H4) on real node processes, file trees / records / reads validated by a TLA+ monitor (SyncTrace.tla)",
    design_ref="DESIGN.md 5 C14",
    text=("TLC checks NoLoss, source-deleted-only-after-verified-copy and eventual placement of the chunked transfer protocol for all "
          "interleavings with up to two crashes (and finds the pinned append-on-retry defect as a liveness violation in the negative "
          "configuration). Real node processes are started with a changed server list (grow / shrink / replace), one of them with a fault "
          "at send / receive chunk k or between the phases (fail or process exit); after every synchronisation the file trees (byte "
          "identity), the collection records of every node and finally all points are validated by TLC."),
    note="trusted: loopback RPC, local file system; disk-full, fsync loss and network partitions are outside the property's fault list")


@prop("C14", "fault_enumeration")
def c14(res, tier, seed, replay):
    if replay:
        replay_run(res, replay, default_module="SyncTrace")
        return
    design_check(res, "SyncMC", "Sync.cfg")
    r = vlib.tlc_model_check("SyncMC", "Sync.pinned.cfg", name="neg-sync", timeout=900)
    if r["ok"] or "EventuallyPlaced" not in (r["raw"] or ""):
        raise Inconclusive("design self-test failed: the append-on-retry receiver should violate EventuallyPlaced")
    res.coverage.setdefault("design_selftests", []).append(
        "receiver appends chunk 0 to a partial file (the pinned behaviour): TLC reports EventuallyPlaced violated (Sync.pinned.cfg)")
    runs = []
    kinds = ["grow", "shrink", "replace"]
    faults = [""]
    for role in ("send", "recv"):
        for k in ((0, 1, 2) if tier == "quick" else (0, 1, 2, 3)):
            for mode in ("fail", "exit"):
                faults.append(f"{role}:{k}:{mode}")
    faults += ["phase:0:fail", "phase:0:exit", "down:0:off", "down:1:off", "down:2:off"]
    i = 0
    for old in (1, 2, 3):
        for kind in kinds:
            runs.append({"name": f"sync-{old}-{kind}-clean", "timeout": 900,
                         "args": ["-old", old, "-kind", kind, "-seed", seed * 100 + i, "-n", 1 if tier == "quick" else 3]
                                 + (["-seproot"] if (i + seed) % 2 else [])})
            i += 1
    reps = 1 if tier == "quick" else 3
    for rep in range(reps):
        for j, fl in enumerate(faults[1:]):
            old = 1 + (j + rep) % 3
            kind = kinds[(j + rep) % 3]
            runs.append({"name": f"sync-{old}-{kind}-{fl.replace(':', '_')}-{rep}", "timeout": 900,
                         "args": ["-old", old, "-kind", kind, "-big", "-fault", fl, "-seed", seed * 100 + 40 + j + 100 * rep, "-n", 1]
                                 + (["-seproot"] if (j + rep + seed) % 3 == 0 else [])})
    # every old server leaves and three new ones take over: records go to several destinations at once; the sender
    # towards one of them is slow (hook H4b) while the others finish and clean up behind themselves
    for j in range(2 if tier == "quick" else 8):
        runs.append({"name": f"sync-scatter-records_slow-{j}", "timeout": 900,
                     "args": ["-old", 1 + j % 2, "-kind", "scatter", "-fault", "records:0:sleep", "-seed", seed * 100 + 80 + j, "-n", 1]})
    # the destination of a moving record already holds an old version of it (left behind by a sender that died between
    # the acknowledgement and its own delete, in an earlier change that was undone): what the owner hands over replaces it
    for j, (old, kind) in enumerate(((1, "grow"), (2, "grow"), (2, "replace")) if tier == "quick" else
                                    ((1, "grow"), (2, "grow"), (2, "replace"), (3, "shrink"), (1, "scatter"), (2, "scatter"))):
        runs.append({"name": f"sync-{old}-{kind}-stale-{j}", "timeout": 900,
                     "args": ["-old", old, "-kind", kind, "-fault", "stale:0:copy", "-seed", seed * 100 + 90 + j, "-n", 1]})
    results = drive_and_validate(res, runs, module="SyncTrace", cmd="sync", workers=4, invariants=())
    nf = ndied = nfailsync = 0
    distinct = set()
    for r in results:
        if not os.path.exists(r["trace"]):
            continue
        with open(r["trace"]) as f:
            for line in f:
                if '"ev":"SReset"' in line:
                    e = json.loads(line)
                    nf += 1
                    distinct.add((e["old"], e["kind"], e["fault"], len(e["files"])))
                    if e["fault"]:
                        res.sample({"scenario": {k: e[k] for k in ("old", "kind", "fault", "nodes")}, "files": e["files"][:4]}, cap=3)
                elif '"ev":"SDied"' in line:
                    ndied += 1
                elif '"ev":"SSync"' in line and '"ok":0' in line:
                    nfailsync += 1
    res.coverage["evaluations"] = nf
    res.coverage["distinct_nontrivial"] = len(distinct)
    res.coverage["node_processes_that_died_under_fault"] = ndied
    res.coverage["synchronisations_that_failed_under_fault"] = nfailsync
    if ndied == 0 or nfailsync == 0:
        raise Inconclusive("no injected fault took effect (vacuous)")

    def mut(e):
        if e["ev"] == "STree" and mut.n >= 2:
            for x in e["files"]:
                if x[2] == 2:
                    x[2] = 1   # the only identical copy of a file is not identical any more
                    return True
        if e["ev"] == "STree":
            mut.n += 1
        return False
    mut.n = 0
    binding_selftest(res, results, mut, module="SyncTrace", what="a byte-identical copy relabelled as different", invariants=())

    def mut2(e):
        if e["ev"] == "SRead" and e["ids"]:
            e["ids"] = e["ids"][1:]
            return True
        return False
    binding_selftest(res, results, mut2, module="SyncTrace", what="one point missing from a read after the move", invariants=())
    res.coverage["rule"] = ("scenario = (old server count 1-3, grow / shrink / replace, fault); data: 6 users with 1-2 collections of real shards "
                            "(per-shard maximum 3 points) plus, in fault runs, synthetic shard files of 100 B / chunk-1 / chunk / 2chunk-1 / 2chunk / "
                            "2chunk+1 bytes (chunk = 8 MiB); every participant is a node process started with the new list; fault = fail or "
                            "process exit at send chunk k, receive chunk k (k = 0..2, thorough 0..3) or between the two phases, or a destination of records that is "
                            "not running during the first round; a third of the scenarios keep shard files in a directory of their own (shardManager.rootDir != rootDir); then restart and two clean "
                            "rounds; TLC checks after every synchronisation: no file without an identical complete copy, source removed only after "
                            "the owner's copy is identical, clean synchronisations succeed, finally everything on exactly its owner and all points readable")
    res.assumptions += ["owner = cluster.RendezvousHash under the new list (routing itself is C13)",
                        "a node that left the server list still starts once with the new list to hand its data over"]
