"""C19: key and value encodings round-trip and preserve order (DESIGN.md 5 C19).

KeyCodec.tla (exhaustive on small widths, with negative configurations) +
`vh codec` (real functions on model values lifted to 64 bits) +
KeyCodecTrace.tla (TLC judges every logged fact)."""
import json
import os
import re

import props
import vlib
from props import prop, design_check, expect_design_violation, drive_and_validate, binding_selftest, Inconclusive

props.META["C19"] = dict(
    technique=("bit-level TLA+ transcription of the key / value codecs (KeyCodecOps.tla), model-checked exhaustively on small widths "
               "(KeyCodec.tla, with negative configurations); the real functions are called on every model value lifted to 64 bits and "
               "TLC validates the logged facts (KeyCodecTrace.tla)"),
    design_ref="DESIGN.md 5 C19",
    text=("TLC checks on every pair of values of two's-complement / unsigned / IEEE mini-float words of 4..10 bits (all byte sizes) that the "
          "transcribed codec round-trips (floats up to ==, both zeros share a key), that bytes.Compare of keys equals the arithmetic order, "
          "that node / point / term / document keys are injective and never collide across kinds, and that the cursor scan algorithms "
          "visit exactly the keys in a range / with a prefix in every small bucket. The real toByteSortable / fromByteSortable, conversion.* "
          "and key builders are then called on all model values lifted to 64 bits (sign extended, top / middle / bottom aligned, anchored "
          "at the extremes), anchors and seeded random values; TLC judges round trips, all pairwise order relations inside batches "
          "(windows over the sorted pool: neighbours judged, the rest by transitivity), range / prefix scans on the memory and bbolt "
          "backends, key collisions and value layouts. Exhaustive for the small-width algorithm; at 64 bits it is conformance of sampled "
          "inputs: the lifting from small widths to 64 bits is an argument (the algorithm is uniform in the width and the real code agreed "
          "bit for bit with its width-64 instance on every input: drift = 0), not a proof."),
    note=("trusted: TLC, Go's comparison operators and math.Float64bits / Float32bits (the reference relation), bleve's analyser for the term "
          "sets, bbolt; termKey / documentKey / IdFromKey are unexported and only covered through the keys a real text index writes; only "
          "the little-endian (raw) Float32ToBytes variant selected at start-up is exercised"))


def drift_of(tv):
    ds = re.findall(r'<<"DRIFT", (\d+)>>', tv.get("raw", ""))
    return max(int(d) for d in ds) if ds else None


def cmp(a, b):
    return (a > b) - (a < b)


def recompute_krel(e):
    v = e["vals"]
    n = len(v)
    e["krel"] = [[cmp(v[a]["k"], v[b]["k"]) for b in range(a + 1, n)] for a in range(n - 1)]


NEGZERO = [128, 0, 0, 0, 0, 0, 0, 0]


# corruptions of one logged line; each must make TLC reject the trace at that line
def mut_swap(e):
    # two values exchange their (otherwise valid) keys and the logged byte relations follow: only "key order = value order" can object
    if e["ev"] == "Batch" and e["kind"] in ("i64", "f64") and len(e["vals"]) >= 2 and e["vrel"][0][0] != 0:
        v = e["vals"]
        v[0]["k"], v[1]["k"] = v[1]["k"], v[0]["k"]
        recompute_krel(e)
        return True
    return False


def mut_negzero(e):
    # what the code did before the repair: -0.0 gets the all-zero key, which decodes as NaN
    if e["ev"] == "Batch" and e["kind"] == "f64" and any(x["p"] == NEGZERO for x in e["vals"]):
        for x in e["vals"]:
            if x["p"] == NEGZERO:
                x["k"] = [0] * 8
                x["d"] = [255] * 8
        recompute_krel(e)
        return True
    return False


def mut_dec(e):
    if e["ev"] == "Batch" and e["kind"] == "i64":
        e["vals"][0]["d"][7] ^= 1
        return True
    return False


def mut_range(e):
    if e["ev"] == "Range" and len(e["got"]) >= 2:
        e["got"] = e["got"][1:]
        e["dec"] = e["dec"][1:]
        return True
    return False


def mut_prefix(e):
    if e["ev"] == "Prefix" and len(e["got"]) >= 1:
        e["got"] = e["got"] + [e["got"][0]]
        e["dec"] = e["dec"] + [e["dec"][0]]
        return True
    return False


def mut_fixed(e):
    if e["ev"] == "Fixed" and len(e["objs"]) >= 2 and e["objs"][0]["k"] != e["objs"][1]["k"]:
        e["objs"][0]["k"] = e["objs"][1]["k"]
        return True
    return False


def mut_probe(e):
    if e["ev"] == "Fixed":
        for o in e["objs"]:
            for p in o["probes"]:
                if p["ok"] == 0:
                    p["ok"] = 1
                    return True
    return False


def mut_words(e):
    if e["ev"] == "Words" and e["fn"] == "f32vec" and e["n"] >= 4:
        e["outp"][9] ^= 64
        return True
    return False


def mut_text(e):
    if e["ev"] == "TextKeys" and len(e["keys"]) >= 3:
        e["keys"] = e["keys"][:-1]
        return True
    return False


def _hex(bs):
    return "0x" + "".join("%02x" % b for b in bs)


def _show(kind, p):
    """Human-readable form of a logged value pattern (reporting only)."""
    import struct
    try:
        if kind == "f64":
            return f"{struct.unpack('>d', bytes(p))[0]!r} (bits {_hex(p)})"
        if kind == "i64":
            return f"{struct.unpack('>q', bytes(p))[0]} ({_hex(p)})"
        if kind == "u64":
            return f"{struct.unpack('>Q', bytes(p))[0]} ({_hex(p)})"
        return f"{bytes(p)!r}"
    except Exception:
        return _hex(p)


def diagnose(line):
    """Point at the offending value / pair inside a rejected line, for the violation report (the verdict is TLC's)."""
    try:
        e = json.loads(line)
    except Exception:
        return ""
    out = []
    if e["ev"] == "Batch":
        kind, v = e["kind"], e["vals"]
        zero = lambda p: kind == "f64" and p[1:] == [0] * 7 and p[0] in (0, 128)
        for x in v:
            if x["e"] or x["de"] or (x["d"] != x["p"] and not (zero(x["d"]) and zero(x["p"]))):
                out.append(f"{kind} value {_show(kind, x['p'])} has key {_hex(x['k'])} which decodes to {_show(kind, x['d']) if x['d'] else 'an error'}")
                break
        for i in range(len(v) - 1):
            for j in range(i + 1, len(v)):
                if e["krel"][i][j - i - 1] != e["vrel"][i][j - i - 1]:
                    out.append(f"{kind} values a = {_show(kind, v[i]['p'])}, b = {_show(kind, v[j]['p'])}: Go compares a ? b as {e['vrel'][i][j - i - 1]} but "
                               f"bytes.Compare(key a, key b) = {e['krel'][i][j - i - 1]} (keys {_hex(v[i]['k'])}, {_hex(v[j]['k'])})")
                    break
            if len(out) >= 2:
                break
    elif e["ev"] == "Fixed":
        o = e["objs"]
        for i in range(len(o)):
            for j in range(i + 1, len(o)):
                same = (o[i]["t"], o[i]["id"], o[i]["s"]) == (o[j]["t"], o[j]["id"], o[j]["s"])
                if (o[i]["k"] == o[j]["k"]) != same and not out:
                    out.append(f"{o[i]['t']} id {_hex(o[i]['id'])} suffix {o[i]['s']} and {o[j]['t']} id {_hex(o[j]['id'])} suffix {o[j]['s']} have keys "
                               f"{_hex(o[i]['k'])} / {_hex(o[j]['k'])}")
            for pr in o[i]["probes"]:
                want = o[i]["t"] == "node" and pr["s"] == o[i]["s"]
                if (pr["ok"] == 1) != want or (pr["ok"] == 1 and pr["id"] != o[i]["id"]):
                    out.append(f"NodeIdFromKey({_hex(o[i]['k'])}, suffix {pr['s']}) = (id {_hex(pr['id'])}, ok {pr['ok']}) for {o[i]['t']} id {_hex(o[i]['id'])} suffix {o[i]['s']}")
                    break
            if len(out) >= 2:
                break
    elif e["ev"] == "Words":
        w = e["w"]
        for i in range(0, min(len(e["inp"]), len(e["outp"])), w):
            if e["inp"][i:i + w] != e["outp"][i:i + w]:
                out.append(f"{e['fn']} of {e['n']} elements: element {i // w} with bits {_hex(e['inp'][i:i + w])} decodes as {_hex(e['outp'][i:i + w])}")
                break
        if len(e["inp"]) != len(e["outp"]):
            out.append(f"{e['fn']}: {e['n']} elements encoded, {len(e['outp']) // w} decoded")
    elif e["ev"] in ("Range", "Prefix"):
        q = (f"prefix {_hex(e['q']['k'])}" if e["ev"] == "Prefix" else
             f"range {'[' if e['incl'] else '('}{_hex(e['lo'][0]['k']) if e['lo'] else '-'} .. {_hex(e['hi'][0]['k']) if e['hi'] else '-'}{']' if e['incl'] else ')'}")
        out.append(f"{e['ev']} scan ({q}, bounds given as real keys) over the bucket filled last visited {len(e['got'])} keys: "
                   + ", ".join(_hex(k) for k in e["got"][:10]) + (" ..." if len(e["got"]) > 10 else ""))
    elif e["ev"] == "TextKeys":
        out.append(f"text bucket on {e['be']} holds {len(e['keys'])} keys for {len({tuple(t) for d in e['docs'] for t in d['terms']})} distinct terms and "
                   f"{len([d for d in e['docs'] if d['terms']])} documents (+1 counter)")
    return "; ".join(out)


def annotate_violations(res):
    """Prefix each violation description with a readable diagnosis of the offending line."""
    for k, (d, desc) in enumerate(res.violations):
        try:
            meta = json.load(open(os.path.join(d, "violation.json")))
            tr = [f for f in os.listdir(d) if f.endswith(".ndjson")]
            if not tr or "line" not in meta["meta"]:
                continue
            diag = diagnose(vlib.read_line(os.path.join(d, tr[0]), meta["meta"]["line"]) or "")
            if diag:
                desc = diag + " -- " + desc
                meta["what"] = desc
                json.dump(meta, open(os.path.join(d, "violation.json"), "w"), indent=1)
                res.violations[k] = (d, desc)
        except Exception:
            pass


SELFTESTS = [
    (mut_swap, "two values exchange their keys (logged relations consistent): key order no longer the value order"),
    (mut_negzero, "-0.0 keyed as before the repair (all-zero key that decodes as NaN)"),
    (mut_dec, "one bit of a decoded int64 altered"),
    (mut_range, "one visited key dropped from a range scan"),
    (mut_prefix, "one key visited twice by a prefix scan"),
    (mut_fixed, "two different node / point keys made equal"),
    (mut_probe, "NodeIdFromKey accepting a key of another suffix / kind"),
    (mut_words, "one bit of a decoded float32 vector element altered"),
    (mut_text, "one key missing from the text index bucket"),
]


def selftests(res, results, kn):
    """Corrupt one line of an accepted trace (prefix up to that line kept), TLC must reject exactly that line."""
    jobs = []
    for k, (mut, what) in enumerate(SELFTESTS):
        done = False
        for r in results:
            if not (r.get("tv") and r["tv"]["accepted"]):
                continue
            out_lines, idx = [], None
            with open(r["trace"]) as f:
                for i, line in enumerate(f):
                    e = json.loads(line)
                    if mut(e):
                        out_lines.append(json.dumps(e) + "\n")
                        idx = i
                        break
                    # scans need the bucket filled last; nothing else carries state
                    if e["ev"] == "Fill":
                        out_lines = [line]
                    elif e["ev"] in ("Range", "Prefix"):
                        pass
            if idx is None:
                continue
            dst = os.path.join(vlib.subdir("traces"), f"selftest{k}-{r['run']['name']}.ndjson")
            with open(dst, "w") as g:
                g.writelines(out_lines)
            jobs.append((k, what, dst, len(out_lines), r["run"]["name"], idx + 1))
            done = True
            break
        if not done and not res.violations:
            raise Inconclusive(f"binding self-test could not run: no accepted trace has a line for '{what}'")

    def one(job):
        k, what, dst, n, name, line = job
        tv = vlib.tlc_trace("KeyCodecTrace", dst, known=kn, name=f"selftest{k}")
        return job, tv
    for (k, what, dst, n, name, line), tv in vlib.pmap(one, jobs):
        if tv["accepted"] or tv["matched"] != n - 1:
            raise Inconclusive(f"binding self-test failed: corrupted trace ({what}) accepted={tv['accepted']} matched={tv['matched']}/{n}")
        res.coverage.setdefault("binding_selftests", []).append(f"{what}: corrupted line {line} of {name} rejected")


def plan(tier, seed):
    runs = []
    if tier == "quick":
        shapes = [(3, 4), (4, 3)]
        intw, random, randb, queries, batch, nseeds = 8, 1000, 20, 60, 32, 1
    else:
        shapes = [(3, 4), (4, 3), (2, 5), (5, 2)]
        intw, random, randb, queries, batch, nseeds = 8, 4000, 60, 120, 48, 3
    for s in range(nseeds):
        sd = seed * 100 + s
        common = ["-seed", sd, "-batch", batch, "-random", random, "-randbatches", randb, "-queries", queries]
        for eb, mb in shapes:
            runs.append({"name": f"f64-e{eb}m{mb}-{s}", "args": ["-parts", "f64,scan", "-eb", eb, "-mb", mb] + common})
        runs.append({"name": f"i64-{s}", "args": ["-parts", "i64,scan", "-intw", intw] + common})
        runs.append({"name": f"u64-str-{s}", "args": ["-parts", "u64,str,scan", "-intw", intw] + common})
        runs.append({"name": f"keys-layouts-{s}", "args": ["-parts", "fixed,words,text", "-intw", 6 if tier == "quick" else 8,
                                                            "-bigvecs", 5 if tier == "quick" else 40] + common})
    return runs


@prop("C19", "model_checking")
def c19(res, tier, seed, replay):
    if replay:
        props.replay_run(res, replay, default_module="KeyCodecTrace")
        annotate_violations(res)
        return
    vlib.build_harness()
    # design level: exhaustive on small widths + negative configurations
    design_check(res, "KeyCodec", "KeyCodec.cfg" if tier == "quick" else "KeyCodec.deep.cfg")
    negs = [("KeyCodec.negzero.cfg", "RoundTrip", "float keys without the canonicalisation of -0.0 (sortable.go before the repair)"),
            ("KeyCodec.noflip.cfg", "OrderIff", "integer keys without the sign-bit flip"),
            ("KeyCodec.le.cfg", "OrderIff", "integer keys written little endian"),
            ("KeyCodec.nosuffix.cfg", "FixedKeys", "NodeIdFromKey without the suffix test")]
    vlib.pmap(lambda n: expect_design_violation(res, "KeyCodec", n[0], n[1], n[2]), negs)

    # conformance: the real code on lifted model values, judged by TLC
    runs = plan(tier, seed)
    results = drive_and_validate(res, runs, module="KeyCodecTrace", cmd="codec")
    annotate_violations(res)
    stats = {}
    drift = 0
    for r in results:
        if r["rc"] == 0:
            try:
                for k, v in json.loads(r["stdout"].strip().splitlines()[-1]).items():
                    stats[k] = stats.get(k, 0) + v
            except Exception:
                pass
            if r.get("tv") and r["tv"]["accepted"]:
                d = drift_of(r["tv"])
                if d is None:
                    raise Inconclusive(f"trace {r['run']['name']} accepted but the spec did not report its drift counter")
                drift += d
    res.coverage["exercised"] = stats
    res.coverage["evaluations"] = sum(v for k, v in stats.items() if k.startswith("pairs_") or k in ("fixed_pairs", "range_scans", "prefix_scans", "vectors", "edge_lists", "text_keys"))
    res.coverage["encodings_differing_from_width64_model"] = drift
    if drift:
        msg = (f"SPEC-DRIFT property=C19: {drift} real encodings differ from the width-64 instance of KeyCodecOps.tla although every "
               "property-level fact holds (another correct codec?): the lifting argument of this check no longer applies as stated")
        print(msg)
        res.notes.append(msg)
    if not res.violations:
        if stats.get("pairs_f64", 0) < 1000 or stats.get("pairs_i64", 0) < 1000 or stats.get("range_scans", 0) < 50:
            raise Inconclusive("the driver exercised too little (vacuity guard)")
    # samples: one line of each kind, abbreviated
    want = ["Batch", "Range", "Prefix", "Fixed", "Words", "TextKeys"]
    for r in results:
        if not os.path.exists(r["trace"]) or not want:
            continue
        with open(r["trace"]) as f:
            for n, line in enumerate(f):
                if n > 600 or not want:
                    break
                ev = line[7:line.index('"', 7)] if line.startswith('{"ev":"') else json.loads(line)["ev"]
                if ev not in want:
                    continue
                e = json.loads(line)
                if ev == "Batch":
                    res.sample({"ev": ev, "kind": e["kind"], "why": e["why"], "values": len(e["vals"]), "first_values": e["vals"][:2],
                                "vrel_row1": e["vrel"][0][:6], "krel_row1": e["krel"][0][:6]}, cap=8)
                elif ev in ("Range", "Prefix"):
                    if not e["got"]:
                        continue
                    smp = {k: e[k] for k in ("ev", "lo", "hi", "incl", "q") if k in e}
                    smp.update({"visited": len(e["got"]), "first_visited": e["got"][0]})
                    res.sample(smp, cap=8)
                elif ev == "Fixed":
                    res.sample({"ev": ev, "objects": len(e["objs"]), "first_objects": e["objs"][:2]}, cap=8)
                elif ev == "Words":
                    res.sample({"ev": ev, "fn": e["fn"], "n": e["n"], "off": e["off"], "inp": e["inp"][:8], "bytes": e["bytes"][:8]}, cap=8)
                elif ev == "TextKeys":
                    res.sample({"ev": ev, "be": e["be"], "docs": e["docs"][:2], "keys": len(e["keys"])}, cap=8)
                want.remove(ev)
    # binding self-tests (one through the shared helper, the rest in parallel on trace prefixes)
    kn = list(props.known_names(res.pid).keys())
    binding_selftest(res, [r for r in results if r["run"]["name"].startswith("i64")] or results, mut_swap, module="KeyCodecTrace",
                     what="two values exchange their keys, byte relations consistent (whole trace)")
    selftests(res, results, kn)
    res.coverage["rule"] = (
        "every value of the integer model (8 bits) and of the mini-float models (1+3+4 and 1+4+3; thorough also 1+2+5, 1+5+2) is lifted to 64 bits "
        "(ints: sign extended, top aligned with 0 / 1 / random fill, middle aligned, anchored at MinInt64 / MaxInt64; floats: exponent 0 and "
        "all-ones kept, normal exponents around the bias / at the bottom / at the top / proportional, mantissa top aligned with 0 / 1 / random "
        "fill, low bits, under a run of ones; NaNs excluded) and joined by anchors (both zeros, +-Inf, +-MaxFloat64, largest / smallest "
        "subnormal, min / max int64 ...) and seeded random patterns; strings: all strings of a 3-letter model up to length 3 under three "
        "monotone byte maps (0x00, 0xff, invalid UTF-8), prefix families, long common prefixes, random bytes. The real toByteSortable / "
        "fromByteSortable run on every value; batches (chunks of the pool, windows over the pool sorted by Go's own order overlapping by one, "
        "random batches) log all pairwise relations: TLC recomputes the byte relation from the real keys and the value relation from the bit "
        "patterns and demands equality with each other and with Go's operators, and the round trip. Buckets on the memory and the bbolt "
        "backend are filled with real keys and scanned (open / closed / half-open ranges, prefixes): TLC demands exactly the stored values "
        "in range, once each, decoding to their values. NodeKey / PointKey / NodeIdFromKey on lifted ids, adversarial uuids (spelling node "
        "keys, one-byte neighbours) and all suffix probes; Float32ToBytes (all float32 classes incl. NaN payloads, lengths 1..4096, decoded "
        "from unaligned buffers), EdgeListToBytes, Uint64ToBytes, SingleFloat32ToBytes round trips on bit patterns; keys written by a real "
        "text index for tricky terms / ids are counted against distinct terms + documents. evaluations = pairs judged + scans + layouts; "
        "a case is distinct by construction of the pools (duplicates only inside random batches)")
    res.assumptions += ["lifting from the small-width models to 64 bits is an argument, not a proof: the transcribed algorithm is uniform in the "
                        "width, is verified exhaustively for widths 4..10, and the real code agreed bit for bit with its width-64 instance on "
                        "every generated input",
                        "float values are compared up to IEEE equality: -0.0 and +0.0 share a key and decode as +0.0; NaN is outside the property",
                        "the numeric relation of two 64-bit patterns is the structural IntRel / FloatRel of KeyCodecOps.tla (proved equal to the "
                        "arithmetic order on small widths) cross-checked against Go's < == > on the same values",
                        "the empty string has the empty key, which bbolt refuses (known finding emptykey): it is excused only there",
                        "text-index keys: exactly one bookkeeping key (_numDocuments) is assumed besides term and document keys, as the package "
                        "comment of shard/index/text states"]
