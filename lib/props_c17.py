"""C17: multi-shard fan-out (Cluster.tla design + real multi-server deployments validated by ClusterTrace.tla)."""
import json
import os

import props
import vlib
from props import prop, design_check, expect_design_violation, drive_and_validate, binding_selftest, sample_from_trace_nonempty, replay_run
from vlib import Inconclusive

props.META["C17"] = dict(
    technique="TLA+ fan-out design (Cluster.tla) model-checked; real 1-3 server / multi-shard deployments (in-process nodes + a killable child node process) validated by TLC against the collection-level reference model (ClusterTrace.tla)",
    design_ref="DESIGN.md 5 C17",
    text=("TLC checks the coordinator design exhaustively (each point in exactly one shard, failed = requested minus processed, 'not found' "
          "only if every shard answered, with a negative variant) and validates traces of real deployments: placement learned from the shards "
          "themselves must partition the live ids; update / delete failed lists, _id reads, filter / flat / sorted searches through random entry "
          "nodes are checked against the model, also after a shard server was killed. The rpc layer under the fan-out has its own "
          "specifications: the retry loop (Rpc.tla; NilMeansExecuted also as an inductive invariant discharged by Apalache with the "
          "number of retries left open) and one connection carrying several calls (RpcMux.tla), bound by a soak phase with a client "
          "whose requests the remote handler refuses and by a fresh-connection probe."),
    note=("trusted: loopback RPC; deployments are sampled (1-3 servers, per-shard maxima 2-6); the per-shard limit heuristic is deliberately "
          "outside the oracle; rpc timeouts (slow servers) are modelled (Rpc.tla, RpcMux.tla) but not driven on the code"))


def apalache_inductive(res):
    import shutil
    import subprocess
    exe = shutil.which("apalache-mc")
    if not exe:
        res.notes.append("apalache-mc not found: the unbounded argument for Rpc.tla was not re-checked (TLC results stand)")
        return
    work = vlib.subdir("apalache")
    shutil.copy(os.path.join(vlib.VERIF, "spec", "Rpc.tla"), work)

    def run(cinit, init, length):
        try:
            p = subprocess.run([exe, "check", f"--cinit={cinit}", f"--init={init}", "--inv=IndInv", f"--length={length}",
                                f"--out-dir={os.path.join(work, 'out')}", "Rpc.tla"],
                               cwd=work, capture_output=True, text=True, timeout=600)
        except subprocess.TimeoutExpired:
            raise Inconclusive("apalache-mc timed out on Rpc.tla")
        out = p.stdout + p.stderr
        if "The outcome is: NoError" in out:
            return "ok"
        if "The outcome is: Error" in out:
            return "refuted"
        raise Inconclusive("apalache-mc gave no verdict on Rpc.tla: " + out[-800:])
    import glob
    before = set(glob.glob("/tmp/SANY*"))   # (the parser of the tool leaves small temporary directories there)
    try:
        base = run("ConstInit", "Init", 0)
        step = run("ConstInit", "IndInit", 1)
        neg = run("ConstInitNeg", "IndInit", 1)
    finally:
        for d in set(glob.glob("/tmp/SANY*")) - before:
            shutil.rmtree(d, ignore_errors=True)
    if base != "ok" or step != "ok":
        raise Inconclusive(f"Rpc.tla: IndInv is not inductive (base {base}, step {step}): the design argument does not stand")
    if neg != "refuted":
        raise Inconclusive("Rpc.tla: the inductive check accepts the negative configuration (vacuous)")
    res.coverage.setdefault("design_selftests", []).append(
        "a dead cached connection counts as an attempt: Apalache refutes the inductive step for open Retries / MaxCrashes")
    res.coverage["unbounded_argument"] = ("Apalache: IndInv (TypeOK, NilMeansExecuted, ResultOnlyAtEnd, replied => executed, loop-counter "
                                          "facts) of Rpc.tla holds in Init and is preserved by Next for Retries in 1..1000, MaxCrashes in "
                                          "0..1000 and unbounded naturals for the counters")


@prop("C17", "model_checking")
def c17(res, tier, seed, replay):
    if replay:
        replay_run(res, replay, default_module="ClusterTrace")
        return
    design_check(res, "Cluster", "Cluster.cfg")
    expect_design_violation(res, "Cluster", "Cluster.neg.cfg", "NotFoundOnlyIfComplete",
                            "coordinator says 'not found' although a shard did not answer")
    # the retry loop under the fan-out (cluster.internalRoute): nil only for a reply that an execution produced
    design_check(res, "Rpc", "Rpc.r1.cfg")
    design_check(res, "Rpc", "Rpc.r3.cfg")
    expect_design_violation(res, "Rpc", "Rpc.neg.cfg", "NilMeansExecuted",
                            "a dead cached connection counted as an attempt: the last attempt returns nil without sending")
    expect_design_violation(res, "Rpc", "Rpc.dup.cfg", "AtMostOnce",
                            "documented design observation: a retry after an rpc timeout can execute the request twice (slow servers are outside C17's fault list)")
    # unbounded argument for the retry loop: Apalache checks that IndInv (which contains NilMeansExecuted) holds initially
    # and is preserved by every step, with the number of retries and the crash budget left open (1..1000 / 0..1000) and
    # unbounded counters; the same check with "a dead connection counts as an attempt" must be refuted
    apalache_inductive(res)
    # one connection carrying several calls at once (net/rpc + the MessagePack codec): a call is completed only by
    # the server's answer to that call, and a refused call concerns nobody else
    design_check(res, "RpcMux", "RpcMux.cfg" if tier == "quick" else "RpcMux.deep.cfg")
    design_check(res, "RpcMux", "RpcMux.live.cfg")
    expect_design_violation(res, "RpcMux", "RpcMux.fail.cfg", "Isolation",
                            "the codec as it was pinned: the body of an error answer makes the reader fail, the connection is closed "
                            "and every call in flight fails (fixed: 6883c97)")
    expect_design_violation(res, "RpcMux", "RpcMux.closeontimeout.cfg", "Isolation",
                            "the cached client of a server is closed when one call to it times out (design level only: no driver "
                            "makes a remote handler slow for seconds)")
    expect_design_violation(res, "RpcMux", "RpcMux.leave.cfg", "NoPhantom",
                            "the body of an error answer is left in the stream and taken for the next header (sequence number 0)")
    runs = []
    n = 1 if tier == "quick" else 5
    for s in range(n):
        for servers in (1, 2, 3):
            for maxshard in ((2, 4) if tier == "quick" else (2, 3, 4, 6)):
                runs.append({"name": f"fan-{servers}s-m{maxshard}-{s}", "timeout": 600,
                             "args": ["-servers", servers, "-maxshard", maxshard, "-seed", seed * 100 + s * 10 + servers, "-hist", 2 if tier == "quick" else 4,
                                      "-batches", 12]})
        # update requests of 40-100 points in request order against 5 shards of one node (the fan-out hands ONE slice
        # to a goroutine per shard)
        for servers in (1, 2):
            runs.append({"name": f"fan-wide-{servers}s-{s}", "timeout": 900,
                         "args": ["-wide", "-servers", servers, "-maxshard", 20, "-seed", seed * 100 + 70 + s * 10 + servers,
                                  "-hist", 2 if tier == "quick" else 6, "-batches", 80]})
        # connections that grow old while requests are in flight: 6.5 s of small update requests back to back
        runs.append({"name": f"fan-soak-{s}", "timeout": 600,
                     "args": ["-servers", 2, "-maxshard", 3, "-seed", seed * 100 + 90 + s, "-hist", 1, "-batches", 10, "-soak-ms", 6500]})
        # the first calls on a fresh connection: a slow search and a refused update at the same moment (RpcMux.tla)
        runs.append({"name": f"fan-mux-{s}", "timeout": 600,
                     "args": ["-mux", 4000, "-servers", 2, "-maxshard", 1000, "-seed", seed * 100 + 95 + s, "-hist", 6 if tier == "quick" else 20,
                              "-batches", 2]})
        for servers in (2, 3):
            runs.append({"name": f"fan-kill-{servers}s-{s}", "timeout": 600,
                         "args": ["-kill", "-servers", servers, "-maxshard", 3, "-seed", seed * 100 + 50 + s * 10 + servers,
                                  "-hist", 3 if tier == "quick" else 8, "-batches", 12]})
    results = drive_and_validate(res, runs, module="ClusterTrace", cmd="fanout", workers=6)
    ndown = nerr = nfail = 0
    for r in results:
        if os.path.exists(r["trace"]):
            with open(r["trace"]) as f:
                for line in f:
                    if '"ev":"CDown"' in line:
                        ndown += 1
                    elif '"ev":"CSearchErr"' in line:
                        nerr += 1
                    elif '"nf":0' in line:
                        nfail += 1
                        res.sample(props.summarize_event(line, 400), cap=2)
    res.coverage["servers_killed"] = ndown
    res.coverage["searches_failed_while_a_shard_was_down"] = nerr
    res.coverage["update_delete_with_unavailable_points"] = nfail
    if ndown == 0 or nfail == 0:
        raise Inconclusive("no history exercised an unavailable shard server (vacuous)")
    for r in results[:1]:
        sample_from_trace_nonempty(res, r["trace"], "CFlat", cap=1)

    def mut(e):
        if e["ev"] == "CGet" and len(e["docs"]) >= 2:
            e["docs"].append(e["docs"][0])   # a point found twice
            return True
        return False
    binding_selftest(res, results, mut, module="ClusterTrace", what="a stored point returned twice by an _id read")

    def mut2(e):
        if e["ev"] in ("CUpdate", "CDelete") and e["failed"]:
            e["failed"] = e["failed"][1:]
            return True
        return False
    binding_selftest(res, results, mut2, module="ClusterTrace", what="one failed id dropped from an update / delete response")
    res.coverage["rule"] = ("deployments of 1-3 servers (loopback RPC) with per-shard maxima 2-6 so that a collection of <= 24 points spreads over up to "
                            "12 shards; random insert / update / delete / search histories through random entry nodes; after every write every reachable "
                            "shard is asked for its ids (placement must partition the live ids); in the kill runs one shard server is a child process that "
                            "is killed mid-history; TLC validates failed lists, the 'not found' message, exactly-once reads, filter / flat / sorted "
                            "multi-shard searches against the collection-level model")
    res.assumptions += ["ids are unique per collection (the driver never re-inserts a live id)",
                        "with a shard server down a search may fail as a whole (the code reports the error); results are judged when it returns"]
